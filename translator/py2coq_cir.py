#!/venv/bin/python
"""Fail-closed translator: the pure index-arithmetic functions of src/exo/backend/LoopIR_compiler.py -> Gallina.

Translated (from the CURRENT source, by Python's `ast`):
    operations                 dict of lambdas            -> operations : cop -> Z -> Z -> option Z
    simplify_cir               recursive rewriter on CIR  -> Fixpoint simplify_cir : cir -> option cir
    Compiler.tensor_strides    loop over a shape          -> tensor_strides : (A -> cir) -> list A -> option (list cir)
    Compiler.get_idx_offset    loop over (index, stride)  -> get_idx_offset : list cir -> list cir -> option cir
    _static_helpers            C text of exo_floor_div / exo_floor_mod (a tiny C expression grammar)
                                                          -> exo_floor_div, exo_floor_mod : Z -> Z -> Z
`None` models a Python exception (failed assert, KeyError, AttributeError, ZeroDivisionError, IndexError).

Any construct outside the grammar below aborts with exit status 2 and a message naming the construct and its line:
nothing is guessed.  The vocabulary of the output (is_const, c_val, set_val, pydiv, ...) is coq/Backend/Model.v."""
from __future__ import annotations

import argparse
import ast
import os
import re
import sys

OPS = {"+": "CAdd", "-": "CSub", "*": "CMul", "/": "CDiv", "%": "CMod"}
CTORS = {"Read": ("CRead", ["name", "is_non_neg"]), "Stride": ("CStride", ["name", "dim"]), "Const": ("CConst", ["val"]),
         "BinOp": ("CBin", ["op", "lhs", "rhs", "is_non_neg"]), "USub": ("CUSub", ["arg", "is_non_neg"])}
ISFN = {"Read": "is_read", "Stride": "is_stride", "Const": "is_const", "BinOp": "is_binop", "USub": "is_usub"}


class Unsupported(Exception):
    def __init__(self, node, what):
        line = getattr(node, "lineno", "?")
        try:
            txt = ast.unparse(node)[:120]
        except Exception:
            txt = repr(node)
        super().__init__("line %s: unsupported %s: %s" % (line, what, txt))


def find_def(tree, name, cls=None):
    body = tree.body
    if cls:
        for n in body:
            if isinstance(n, ast.ClassDef) and n.name == cls:
                body = n.body
                break
        else:
            raise Unsupported(tree, "class %s not found" % cls)
    for n in body:
        if isinstance(n, ast.FunctionDef) and n.name == name:
            return n
    raise Unsupported(tree, "function %s not found" % name)


def find_assign(tree, name):
    for n in tree.body:
        if isinstance(n, ast.Assign) and len(n.targets) == 1 and isinstance(n.targets[0], ast.Name) and n.targets[0].id == name:
            return n.value
    raise Unsupported(tree, "module-level assignment %s not found" % name)


def cir_class(node):
    """CIR.X -> 'X'"""
    if isinstance(node, ast.Attribute) and isinstance(node.value, ast.Name) and node.value.id == "CIR" and node.attr in CTORS:
        return node.attr
    raise Unsupported(node, "CIR constructor reference")


# ---------------------------------------------------------------------------------------------- operations
def tr_operations(node):
    if not isinstance(node, ast.Dict):
        raise Unsupported(node, "operations table (dict literal expected)")
    arms = {}
    for k, v in zip(node.keys, node.values):
        if not (isinstance(k, ast.Constant) and k.value in OPS):
            raise Unsupported(k, "operations key")
        if not (isinstance(v, ast.Lambda) and len(v.args.args) == 2 and not v.args.defaults):
            raise Unsupported(v, "operations value (binary lambda expected)")
        a, b = v.args.args[0].arg, v.args.args[1].arg
        e = v.body
        if not (isinstance(e, ast.BinOp) and isinstance(e.left, ast.Name) and isinstance(e.right, ast.Name)
                and e.left.id == a and e.right.id == b):
            raise Unsupported(v, "operations lambda body (x <op> y over its two parameters, in this order)")
        if isinstance(e.op, ast.Add):
            arms[k.value] = "Some (x + y)"
        elif isinstance(e.op, ast.Sub):
            arms[k.value] = "Some (x - y)"
        elif isinstance(e.op, ast.Mult):
            arms[k.value] = "Some (x * y)"
        elif isinstance(e.op, ast.FloorDiv):
            arms[k.value] = "pydiv x y"
        elif isinstance(e.op, ast.Mod):
            arms[k.value] = "pymod x y"
        else:
            raise Unsupported(v, "operator in the operations table (true division yields a float, not an index)")
    lines = ["Definition operations (op : cop) (x y : Z) : option Z :=", "  match op with"]
    for k, c in OPS.items():
        lines.append("  | %s => %s" % (c, arms.get(k, "None (* KeyError *)")))
    lines += ["  end.", ""]
    return "\n".join(lines)


# ---------------------------------------------------------------------------------------------- simplify_cir
class Simp:
    """translation of a function `def f(e)` whose body is one if/elif chain on isinstance(e, CIR.*)"""

    def __init__(self, fn):
        self.fn = fn
        if len(fn.args.args) != 1:
            raise Unsupported(fn, "parameter list of simplify_cir")
        self.param = fn.args.args[0].arg
        self.fields = None  # attribute of the parameter -> bound pattern variable, inside a branch
        self.ctor = None
        self.locals = set()

    # ---- conditions (total booleans)
    def cond(self, c):
        if isinstance(c, ast.BoolOp):
            if isinstance(c.op, ast.And):
                # isinstance(X, CIR.Const) and X.val == N  -> const_is X N   (the attribute access is guarded)
                vals = list(c.values)
                out = []
                i = 0
                while i < len(vals):
                    v = vals[i]
                    guard = self.const_guard(v)
                    if guard is not None and i + 1 < len(vals):
                        k = self.val_eq(vals[i + 1], guard)
                        if k is not None:
                            out.append("const_is %s (%s)" % (guard, k))
                            i += 2
                            continue
                    out.append(self.cond(v))
                    i += 1
                return "(" + " && ".join(out) + ")"
            return "(" + " || ".join(self.cond(v) for v in c.values) + ")"
        if isinstance(c, ast.Call) and isinstance(c.func, ast.Name) and c.func.id == "isinstance" and len(c.args) == 2:
            x = self.local(c.args[0])
            classes = c.args[1].elts if isinstance(c.args[1], ast.Tuple) else [c.args[1]]
            return "(" + " || ".join("%s %s" % (ISFN[cir_class(k)], x) for k in classes) + ")"
        if isinstance(c, ast.Compare) and len(c.ops) == 1 and isinstance(c.ops[0], ast.Eq):
            l, r = c.left, c.comparators[0]
            if self.is_param_attr(l, "op") and isinstance(r, ast.Constant) and r.value in OPS:
                return "cop_eqb %s %s" % (self.fields["op"], OPS[r.value])
        raise Unsupported(c, "condition")

    def const_guard(self, v):
        if (isinstance(v, ast.Call) and isinstance(v.func, ast.Name) and v.func.id == "isinstance" and len(v.args) == 2
                and not isinstance(v.args[1], ast.Tuple) and cir_class(v.args[1]) == "Const" and isinstance(v.args[0], ast.Name)):
            return self.local(v.args[0])
        return None

    def val_eq(self, v, x):
        if (isinstance(v, ast.Compare) and len(v.ops) == 1 and isinstance(v.ops[0], ast.Eq)
                and isinstance(v.left, ast.Attribute) and v.left.attr == "val" and isinstance(v.left.value, ast.Name)
                and v.left.value.id == x and isinstance(v.comparators[0], ast.Constant)
                and type(v.comparators[0].value) is int):
            return str(v.comparators[0].value)
        return None

    def is_param_attr(self, n, attr=None):
        return (isinstance(n, ast.Attribute) and isinstance(n.value, ast.Name) and n.value.id == self.param
                and (attr is None or n.attr == attr))

    def local(self, n):
        if isinstance(n, ast.Name) and n.id in self.locals:
            return n.id
        if isinstance(n, ast.Name) and n.id == self.param:
            return self.param
        raise Unsupported(n, "variable (a local or the parameter expected)")

    # ---- integer expressions in the option monad: returns (binds, term)
    def zexpr(self, e, binds):
        if isinstance(e, ast.Constant) and type(e.value) is int:
            return "(%d)" % e.value
        if isinstance(e, ast.Attribute) and e.attr == "val" and isinstance(e.value, ast.Name):
            x = self.local(e.value)
            v = "v%d" % len(binds)
            binds.append((v, "c_val %s" % x))
            return v
        if isinstance(e, ast.UnaryOp) and isinstance(e.op, ast.USub):
            return "(- %s)" % self.zexpr(e.operand, binds)
        if (isinstance(e, ast.Call) and isinstance(e.func, ast.Subscript) and isinstance(e.func.value, ast.Name)
                and e.func.value.id == "operations" and self.is_param_attr(e.func.slice, "op") and len(e.args) == 2):
            a = self.zexpr(e.args[0], binds)
            b = self.zexpr(e.args[1], binds)
            v = "v%d" % len(binds)
            binds.append((v, "operations %s %s %s" % (self.fields["op"], a, b)))
            return v
        raise Unsupported(e, "integer expression")

    # ---- CIR-valued expressions: an `option cir` term
    def expr(self, e):
        binds = []
        t = self.expr0(e, binds)
        for v, rhs in reversed(binds):
            t = "(do %s <- %s ;; %s)" % (v, rhs, t)
        return t

    def expr0(self, e, binds):
        if isinstance(e, ast.Name):
            return "Some %s" % self.local(e)
        if self.is_param_attr(e) and e.attr in self.fields and e.attr in ("lhs", "rhs", "arg"):
            return "Some %s" % self.fields[e.attr]
        if isinstance(e, ast.Attribute) and e.attr == "arg" and isinstance(e.value, ast.Name) and e.value.id in self.locals:
            return "c_arg %s" % e.value.id
        if isinstance(e, ast.Call) and isinstance(e.func, ast.Name) and e.func.id == self.fn.name and len(e.args) == 1:
            a = e.args[0]
            if self.is_param_attr(a) and a.attr in self.fields:
                return "%s %s" % (self.fn.name, self.fields[a.attr])  # structurally smaller: a pattern variable
            raise Unsupported(e, "recursive call (only on a field of the parameter)")
        if isinstance(e, ast.Call) and isinstance(e.func, ast.Attribute) and e.func.attr == "update" and not e.args \
                and len(e.keywords) == 1:
            kw = e.keywords[0]
            tgt = e.func.value
            if isinstance(tgt, ast.Name) and tgt.id == self.param and kw.arg in self.fields:
                # e.update(f=X): rebuild the matched constructor with one field replaced
                cn, fl = CTORS[self.ctor]
                inner = self.expr_plain(kw.value)
                args = [inner if f == kw.arg else self.fields[f] for f in fl]
                return "Some (%s %s)" % (cn, " ".join(args))
            if isinstance(tgt, ast.Name) and tgt.id in self.locals and kw.arg == "val":
                z = self.zexpr(kw.value, binds)
                return "set_val %s %s" % (tgt.id, z)
            raise Unsupported(e, "update")
        if isinstance(e, ast.Call) and isinstance(e.func, ast.Attribute):
            cls = cir_class(e.func)
            cn, fl = CTORS[cls]
            if len(e.args) != len(fl) or e.keywords:
                raise Unsupported(e, "constructor arity")
            args = []
            for f, a in zip(fl, e.args):
                if f == "val":
                    args.append(self.zexpr(a, binds))
                elif f == "op":
                    if self.is_param_attr(a, "op"):
                        args.append(self.fields["op"])
                    elif isinstance(a, ast.Constant) and a.value in OPS:
                        args.append(OPS[a.value])
                    else:
                        raise Unsupported(a, "operator argument")
                elif f == "is_non_neg":
                    if self.is_param_attr(a, "is_non_neg"):
                        args.append(self.fields["is_non_neg"])
                    elif isinstance(a, ast.Constant) and isinstance(a.value, bool):
                        args.append("true" if a.value else "false")
                    else:
                        raise Unsupported(a, "is_non_neg argument")
                elif f in ("lhs", "rhs", "arg"):
                    args.append(self.expr_plain(a))
                else:
                    raise Unsupported(a, "constructor argument")
            return "Some (%s %s)" % (cn, " ".join(args))
        raise Unsupported(e, "expression")

    def expr_plain(self, e):
        if isinstance(e, ast.Name):
            return self.local(e)
        if self.is_param_attr(e) and e.attr in self.fields:
            return self.fields[e.attr]
        raise Unsupported(e, "sub-expression (a variable or a field of the parameter expected)")

    # ---- statements
    def stmts(self, ss, ind):
        if not ss:
            return "None (* falls off the end *)"
        s, rest = ss[0], ss[1:]
        pad = "  " * ind
        if isinstance(s, ast.Return):
            if s.value is None:
                raise Unsupported(s, "bare return")
            if isinstance(s.value, ast.Name) and s.value.id == self.param:
                return "Some %s" % self.param
            return self.expr(s.value)
        if isinstance(s, ast.Pass):
            return self.stmts(rest, ind)
        if isinstance(s, ast.Assert):
            if isinstance(s.test, ast.Constant) and s.test.value is False:
                return "None (* assert False *)"
            return "if %s then\n%s%s\n%selse None" % (self.cond(s.test), pad, self.stmts(rest, ind + 1), pad)
        if isinstance(s, ast.Assign) and len(s.targets) == 1 and isinstance(s.targets[0], ast.Name):
            x = s.targets[0].id
            if x == self.param:
                raise Unsupported(s, "assignment to the parameter")
            rhs = self.expr(s.value)
            self.locals.add(x)
            return "do %s <- %s ;;\n%s%s" % (x, rhs, pad, self.stmts(rest, ind))
        if isinstance(s, ast.If):
            c = self.cond(s.test)
            saved = set(self.locals)
            a = self.stmts(list(s.body) + rest, ind + 1)
            self.locals = set(saved)
            b = self.stmts(list(s.orelse) + rest, ind + 1)
            self.locals = saved
            return "if %s then\n%s  %s\n%selse\n%s  %s" % (c, pad, a, pad, pad, b)
        raise Unsupported(s, "statement")

    def translate(self):
        body = [s for s in self.fn.body if not (isinstance(s, ast.Expr) and isinstance(s.value, ast.Constant))]
        if len(body) != 1 or not isinstance(body[0], ast.If):
            raise Unsupported(self.fn, "body of %s (one if/elif chain on the parameter's class expected)" % self.fn.name)
        arms = {}
        node = body[0]
        default = None
        while True:
            t = node.test
            if not (isinstance(t, ast.Call) and isinstance(t.func, ast.Name) and t.func.id == "isinstance"
                    and len(t.args) == 2 and isinstance(t.args[0], ast.Name) and t.args[0].id == self.param):
                raise Unsupported(t, "top-level dispatch (isinstance(%s, CIR.X) expected)" % self.param)
            classes = t.args[1].elts if isinstance(t.args[1], ast.Tuple) else [t.args[1]]
            for k in classes:
                cls = cir_class(k)
                if cls in arms:
                    continue  # an earlier arm wins, as in the if/elif chain
                self.ctor = cls
                self.fields = {f: "e_%s" % f for f in CTORS[cls][1]}
                self.locals = set()
                arms[cls] = self.stmts(list(node.body), 3)
            if len(node.orelse) == 1 and isinstance(node.orelse[0], ast.If):
                node = node.orelse[0]
                continue
            self.ctor, self.fields, self.locals = None, {}, set()
            default = self.stmts(list(node.orelse), 3) if node.orelse else "None (* falls off the end *)"
            break
        lines = ["Fixpoint %s (%s : cir) : option cir :=" % (self.fn.name, self.param), "  match %s with" % self.param]
        for cls, (cn, fl) in CTORS.items():
            pat = "%s %s" % (cn, " ".join("e_%s" % f for f in fl))
            lines.append("  | %s =>\n      %s" % (pat, arms.get(cls, default)))
        lines += ["  end.", ""]
        return "\n".join(lines)


# ---------------------------------------------------------------------------------------------- list functions
class ListFn:
    """straight-line code over lists of CIR with `for` loops that only rebind locals (-> fold_left)"""

    def __init__(self, fn, params, selfcalls):
        self.fn = fn
        self.params = params          # python name -> gallina name of (list-valued) parameters
        self.selfcalls = selfcalls    # self.<m>(...) -> gallina parameter
        self.locals = set(params)
        self.mapfns = set()

    def pure(self, e):
        """total expressions"""
        if isinstance(e, ast.Name) and e.id in self.locals:
            return e.id
        if isinstance(e, ast.Constant) and type(e.value) is int:
            return "(%d)" % e.value
        if isinstance(e, ast.List):
            return "[%s]" % "; ".join(self.pure(x) for x in e.elts)
        if isinstance(e, ast.Call) and isinstance(e.func, ast.Attribute) and isinstance(e.func.value, ast.Name) \
                and e.func.value.id == "CIR":
            cn, fl = CTORS[cir_class(e.func)]
            if len(e.args) != len(fl) or e.keywords:
                raise Unsupported(e, "constructor arity")
            args = []
            for f, a in zip(fl, e.args):
                if f == "op":
                    if not (isinstance(a, ast.Constant) and a.value in OPS):
                        raise Unsupported(a, "operator argument")
                    args.append(OPS[a.value])
                elif f == "is_non_neg":
                    if not (isinstance(a, ast.Constant) and isinstance(a.value, bool)):
                        raise Unsupported(a, "is_non_neg argument")
                    args.append("true" if a.value else "false")
                else:
                    args.append(self.pure(a))
            return "(%s %s)" % (cn, " ".join(args))
        if isinstance(e, ast.Call) and isinstance(e.func, ast.Name) and e.func.id == "reversed" and len(e.args) == 1:
            return "(rev %s)" % self.pure(e.args[0])
        if isinstance(e, ast.Call) and isinstance(e.func, ast.Name) and e.func.id == "list" and len(e.args) == 1:
            return self.pure(e.args[0])
        if isinstance(e, ast.Call) and isinstance(e.func, ast.Name) and e.func.id == "zip" and len(e.args) == 2:
            return "(combine %s %s)" % (self.pure(e.args[0]), self.pure(e.args[1]))
        if isinstance(e, ast.Call) and isinstance(e.func, ast.Name) and e.func.id == "len" and len(e.args) == 1:
            return "(Z.of_nat (length %s))" % self.pure(e.args[0])
        if isinstance(e, ast.Subscript) and isinstance(e.slice, ast.Slice) and e.slice.step is None:
            lo, hi = e.slice.lower, e.slice.upper
            x = self.pure(e.value)
            if lo is None and isinstance(hi, ast.UnaryOp) and isinstance(hi.op, ast.USub) \
                    and isinstance(hi.operand, ast.Constant) and hi.operand.value == 1:
                return "(removelast %s)" % x
            if hi is None and isinstance(lo, ast.Constant) and lo.value == 1:
                return "(tl %s)" % x
            raise Unsupported(e, "slice")
        if isinstance(e, ast.ListComp) and len(e.generators) == 1 and not e.generators[0].ifs \
                and isinstance(e.generators[0].target, ast.Name) and isinstance(e.elt, ast.Call) \
                and isinstance(e.elt.func, ast.Name) and e.elt.args and isinstance(e.elt.args[0], ast.Name) \
                and e.elt.args[0].id == e.generators[0].target.id and e.elt.func.id in self.params:
            return "(map %s %s)" % (self.params[e.elt.func.id], self.pure(e.generators[0].iter))
        if isinstance(e, ast.Call) and isinstance(e.func, ast.Attribute) and isinstance(e.func.value, ast.Name) \
                and e.func.value.id == "self" and e.func.attr in self.selfcalls:
            return self.selfcalls[e.func.attr]
        raise Unsupported(e, "expression")

    def partial(self, e):
        """expressions that may raise IndexError: returns an option term or None if `e` is total"""
        if isinstance(e, ast.Subscript) and not isinstance(e.slice, ast.Slice):
            x = self.pure(e.value)
            i = e.slice
            if isinstance(i, ast.Constant) and i.value == 0:
                return "hd_error %s" % x
            if isinstance(i, ast.UnaryOp) and isinstance(i.op, ast.USub) and isinstance(i.operand, ast.Constant) \
                    and i.operand.value == 1:
                return "hd_error (rev %s)" % x
            raise Unsupported(e, "subscript")
        return None

    def boolexp(self, c):
        if isinstance(c, ast.Compare) and len(c.ops) == 1:
            a, b = self.pure(c.left), self.pure(c.comparators[0])
            op = c.ops[0]
            if isinstance(op, ast.GtE):
                return "(%s <=? %s)" % (b, a)
            if isinstance(op, ast.Eq):
                return "(%s =? %s)" % (a, b)
            if isinstance(op, ast.LtE):
                return "(%s <=? %s)" % (a, b)
        raise Unsupported(c, "assertion")

    def rhs_with_partials(self, e, k):
        """translate `e`, hoisting X[0] / X[-1] sub-expressions into monadic binds; k(term) builds the continuation"""
        binds = []

        def hoist(n):
            for f, v in ast.iter_fields(n):
                if isinstance(v, ast.AST):
                    p = self.partial(v)
                    if p is not None:
                        nm = "h%d_" % len(binds)
                        binds.append((nm, p))
                        self.locals.add(nm)
                        setattr(n, f, ast.Name(id=nm, ctx=ast.Load()))
                    else:
                        hoist(v)
                elif isinstance(v, list):
                    for j, w in enumerate(v):
                        if isinstance(w, ast.AST):
                            p = self.partial(w)
                            if p is not None:
                                nm = "h%d_" % len(binds)
                                binds.append((nm, p))
                                self.locals.add(nm)
                                v[j] = ast.Name(id=nm, ctx=ast.Load())
                            else:
                                hoist(w)
        p = self.partial(e)
        if p is not None:
            nm = "h0_"
            self.locals.add(nm)
            return "do %s <- %s ;;\n%s" % (nm, p, k(nm))
        hoist(e)
        t = k(self.pure(e))
        for nm, p in reversed(binds):
            t = "do %s <- %s ;;\n%s" % (nm, p, t)
        return t

    def assigned(self, body):
        out = []
        for s in body:
            if isinstance(s, ast.Assign) and len(s.targets) == 1 and isinstance(s.targets[0], ast.Name):
                if s.targets[0].id not in out:
                    out.append(s.targets[0].id)
            elif isinstance(s, ast.Expr) and isinstance(s.value, ast.Call) and isinstance(s.value.func, ast.Attribute) \
                    and s.value.func.attr == "append" and isinstance(s.value.func.value, ast.Name):
                if s.value.func.value.id not in out:
                    out.append(s.value.func.value.id)
            else:
                raise Unsupported(s, "loop body statement (only rebinding of locals / append)")
        return out

    def simple(self, s, rest_term):
        """pure rebinding statements inside loops"""
        if isinstance(s, ast.Assign):
            x = s.targets[0].id
            t = self.pure(s.value)
            self.locals.add(x)
            return "let %s := %s in\n%s" % (x, t, rest_term())
        x = s.value.func.value.id
        if x not in self.locals or len(s.value.args) != 1:
            raise Unsupported(s, "append")
        t = self.pure(s.value.args[0])
        return "let %s := %s ++ [%s] in\n%s" % (x, x, t, rest_term())

    def stmts(self, ss):
        if not ss:
            return "None (* falls off the end *)"
        s, rest = ss[0], ss[1:]
        if isinstance(s, ast.Return) and s.value is not None:
            return self.rhs_with_partials(s.value, lambda t: "Some %s" % t)
        if isinstance(s, ast.Assert):
            return "if %s then\n%s\nelse None" % (self.boolexp(s.test), self.stmts(rest))
        if isinstance(s, ast.Assign) and len(s.targets) == 1 and isinstance(s.targets[0], ast.Name):
            x = s.targets[0].id

            def k(t):
                self.locals.add(x)
                return "let %s := %s in\n%s" % (x, t, self.stmts(rest))
            return self.rhs_with_partials(s.value, k)
        if isinstance(s, ast.For) and not s.orelse:
            # variables first bound inside the body are loop-local temporaries (a later use is unbound in Gallina)
            vs = [v for v in self.assigned(s.body) if v in self.locals]
            if not vs:
                raise Unsupported(s, "loop without loop-carried variables")
            it = self.pure(s.iter)
            if isinstance(s.target, ast.Name):
                tgt, names = s.target.id, [s.target.id]
            elif isinstance(s.target, ast.Tuple) and len(s.target.elts) == 2 and all(isinstance(x, ast.Name) for x in s.target.elts):
                names = [x.id for x in s.target.elts]
                tgt = "'(%s, %s)" % tuple(names)
            else:
                raise Unsupported(s.target, "loop target")
            saved = set(self.locals)
            self.locals |= set(names)
            state = "(%s)" % ", ".join(vs) if len(vs) > 1 else vs[0]
            pat = "'%s" % state if len(vs) > 1 else state

            def body_term(i=0):
                if i == len(s.body):
                    return state
                return self.simple(s.body[i], lambda: body_term(i + 1))
            bt = body_term()
            self.locals = saved
            return "let %s := fold_left (fun %s %s =>\n%s) %s %s in\n%s" % (pat, pat, tgt, bt, it, state, self.stmts(rest))
        raise Unsupported(s, "statement")


# ---------------------------------------------------------------------------------------------- C helpers
class CParse:
    """`static int f(int a, int b) { int v = E; ... return E; }` over ?: comparisons + - * / % unary-, parentheses"""

    def __init__(self, text, name):
        self.name = name
        m = re.match(r"\s*static\s+int\s+(\w+)\s*\(\s*int\s+(\w+)\s*,\s*int\s+(\w+)\s*\)\s*\{(.*)\}\s*$", text, flags=re.S)
        if not m or m.group(1) != name:
            raise Unsupported(ast.Constant(value=text), "C helper %s (static int f(int, int) { ... })" % name)
        self.params = [m.group(2), m.group(3)]
        self.body = m.group(4)
        self.toks = []
        self.pos = 0

    def tokenize(self, s):
        toks = re.findall(r"\s*(>=|<=|==|!=|[A-Za-z_]\w*|\d+|[-+*/%()?:<>])", s)
        if "".join(toks) != re.sub(r"\s+", "", s):
            raise Unsupported(ast.Constant(value=s), "C token in helper %s" % self.name)
        return toks

    def peek(self):
        return self.toks[self.pos] if self.pos < len(self.toks) else None

    def eat(self, t=None):
        x = self.peek()
        if x is None or (t is not None and x != t):
            raise Unsupported(ast.Constant(value=" ".join(self.toks)), "C syntax in helper %s (expected %s)" % (self.name, t))
        self.pos += 1
        return x

    def ternary(self):
        c = self.compare()
        if self.peek() == "?":
            self.eat("?")
            a = self.ternary()
            self.eat(":")
            b = self.ternary()
            if not c[0] == "bool":
                raise Unsupported(ast.Constant(value=c[1]), "C condition (a comparison expected)")
            return ("int", "(if %s then %s else %s)" % (c[1], a[1], b[1]))
        return c

    def compare(self):
        a = self.additive()
        if self.peek() in (">=", "<=", "<", ">", "=="):
            op = self.eat()
            b = self.additive()
            t = {">=": "(%s <=? %s)" % (b[1], a[1]), "<=": "(%s <=? %s)" % (a[1], b[1]), "<": "(%s <? %s)" % (a[1], b[1]),
                 ">": "(%s <? %s)" % (b[1], a[1]), "==": "(%s =? %s)" % (a[1], b[1])}[op]
            return ("bool", t)
        return a

    def additive(self):
        a = self.mult()
        while self.peek() in ("+", "-"):
            op = self.eat()
            b = self.mult()
            a = ("int", "(%s %s %s)" % (a[1], op, b[1]))
        return a

    def mult(self):
        a = self.unary()
        while self.peek() in ("*", "/", "%"):
            op = self.eat()
            b = self.unary()
            if op == "*":
                a = ("int", "(%s * %s)" % (a[1], b[1]))
            elif op == "/":
                a = ("int", "(Z.quot %s %s)" % (a[1], b[1]))
            else:
                a = ("int", "(Z.rem %s %s)" % (a[1], b[1]))
        return a

    def unary(self):
        if self.peek() == "-":
            self.eat()
            a = self.unary()
            return ("int", "(- %s)" % a[1])
        if self.peek() == "(":
            self.eat("(")
            a = self.ternary()
            self.eat(")")
            return a
        t = self.eat()
        if re.fullmatch(r"\d+", t):
            return ("int", t)
        if t in self.scope:
            return ("int", t)
        raise Unsupported(ast.Constant(value=t), "C identifier in helper %s" % self.name)

    def translate(self):
        self.scope = list(self.params)
        stmts = [x.strip() for x in self.body.split(";") if x.strip()]
        lets = []
        ret = None
        for st in stmts:
            if ret is not None:
                raise Unsupported(ast.Constant(value=st), "C statement after return in helper %s" % self.name)
            m = re.match(r"int\s+(\w+)\s*=\s*(.*)$", st, flags=re.S)
            if m:
                self.toks, self.pos = self.tokenize(m.group(2)), 0
                e = self.ternary()
                if self.peek() is not None or e[0] != "int":
                    raise Unsupported(ast.Constant(value=st), "C initialiser in helper %s" % self.name)
                lets.append((m.group(1), e[1]))
                self.scope.append(m.group(1))
                continue
            m = re.match(r"return\s+(.*)$", st, flags=re.S)
            if m:
                self.toks, self.pos = self.tokenize(m.group(1)), 0
                e = self.ternary()
                if self.peek() is not None or e[0] != "int":
                    raise Unsupported(ast.Constant(value=st), "C return expression in helper %s" % self.name)
                ret = e[1]
                continue
            raise Unsupported(ast.Constant(value=st), "C statement in helper %s" % self.name)
        if ret is None:
            raise Unsupported(ast.Constant(value=self.body), "C helper %s without return" % self.name)
        out = "Definition %s (%s %s : Z) : Z :=\n" % (self.name, self.params[0], self.params[1])
        for v, e in lets:
            out += "  let %s := %s in\n" % (v, e)
        out += "  %s.\n" % ret
        return out


def tr_helpers(node):
    if not isinstance(node, ast.Dict):
        raise Unsupported(node, "_static_helpers (dict literal expected)")
    out = []
    seen = set()
    for k, v in zip(node.keys, node.values):
        if not isinstance(k, ast.Constant):
            raise Unsupported(k, "_static_helpers key")
        if isinstance(v, ast.Call) and len(v.args) == 1 and isinstance(v.args[0], ast.Constant):
            text = v.args[0].value
        elif isinstance(v, ast.Constant):
            text = v.value
        else:
            raise Unsupported(v, "_static_helpers value")
        seen.add(k.value)
        out.append(CParse(text, k.value).translate())
    for need in ("exo_floor_div", "exo_floor_mod"):
        if need not in seen:
            raise Unsupported(node, "_static_helpers lacks %s" % need)
    return "\n".join(out)


# ---------------------------------------------------------------------------------------------- driver
def translate(src: str) -> str:
    tree = ast.parse(src)
    parts = ["(* GENERATED by translator/py2coq_cir.py from src/exo/backend/LoopIR_compiler.py - do not edit *)",
             "From Coq Require Import ZArith List Bool.", "From Backend Require Import Model.", "Import ListNotations.",
             "Local Open Scope Z_scope.", "",
             "Local Notation \"'do' x <- e ;; k\" := (match e with Some x => k | None => None end)",
             "  (at level 200, x name, e at level 100, k at level 200).", "",
             "Definition const_is (e : cir) (k : Z) : bool := match e with CConst v => v =? k | _ => false end.", ""]
    parts.append(tr_operations(find_assign(tree, "operations")))
    parts.append(Simp(find_def(tree, "simplify_cir")).translate())
    ts = find_def(tree, "tensor_strides", "Compiler")
    lf = ListFn(ts, {"shape": "shape", "lift_to_cir": "lift_to_cir"}, {})
    parts.append("Definition tensor_strides {A : Type} (lift_to_cir : A -> cir) (shape : list A) : option (list cir) :=\n%s.\n"
                 % lf.stmts([s for s in ts.body]))
    gi = find_def(tree, "get_idx_offset", "Compiler")
    lf = ListFn(gi, {"idx": "idx"}, {"get_strides": "get_strides"})
    parts.append("Definition get_idx_offset (get_strides : list cir) (idx : list cir) : option cir :=\n%s.\n"
                 % lf.stmts([s for s in gi.body]))
    parts.append(tr_helpers(find_assign(tree, "_static_helpers")))
    return "\n".join(parts)


def main():
    ap = argparse.ArgumentParser()
    ap.add_argument("--repo", default=os.environ.get("EXO_REPO", "/repo"))
    ap.add_argument("-o", "--out", required=True)
    a = ap.parse_args()
    path = os.path.join(a.repo, "src", "exo", "backend", "LoopIR_compiler.py")
    try:
        out = translate(open(path).read())
    except Unsupported as e:
        sys.stderr.write("py2coq_cir: %s: %s\n" % (path, e))
        sys.exit(2)
    with open(a.out, "w") as f:
        f.write(out)


if __name__ == "__main__":
    main()
