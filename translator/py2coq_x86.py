#!/venv/bin/python
"""py2coq_x86: every `@instr` of exo/platforms/x86.py  ->  (C fragment AST, Exo body AST) as Gallina terms.

The C format string is tokenised and parsed into the `cexpr`/`cstmt` grammar of coq/X86/Model.v; the Exo body is
read from the LoopIR that exo itself built for the instruction (so the tie is to what `replace` trusts).
Fail closed: anything outside the supported grammar raises `Unsupported(instr, construct)` and the command line
entry point exits non-zero naming both.  Instructions that call an intrinsic the model does not have
(constructor list of `Inductive intrin` in Model.v) are not translated but listed in `unmodelled`.

The same Python AST is printed (a) as Gallina (Gen_X86Instrs.v) and (b) as s-expressions for the extracted
OCaml interpreter (correspondence), so both consumers see one parse.
"""
from __future__ import annotations

import hashlib
import json
import os
import re
import string
import sys
from fractions import Fraction
from pathlib import Path

VERIF = Path(__file__).resolve().parent.parent
REPO = Path(os.environ.get("EXO_REPO", "/repo"))

NAMED_CONSTANTS = {"_CMP_LT_OQ": 17}
VEC_TYPES = {"__m128": 4, "__m256": 8, "__m512": 16, "__m256d": 4, "__m128d": 2}
INT_VEC_TYPES = {"__m256i", "__m128i", "__m512i"}
# intrinsics whose result has lanes the ISA leaves undefined (model: one shared family rundef(i))
UNDEF_PRODUCERS = {"_mm256_castps128_ps256", "_mm256_castpd128_pd256"}
EXTERN_TEXT = {
    "select": "if (x < v) return y;\n    else return z;",
    "relu": "if (x > 0.0) return x;\n    else return 0.0;",
}


class Unsupported(Exception):
    def __init__(self, instr, construct):
        super().__init__("instruction %s: unsupported construct: %s" % (instr, construct))
        self.instr = instr
        self.construct = construct


# ---------------------------------------------------------------------------------------------- model's intrinsics
def modelled_intrinsics(model_v: Path | None = None) -> set[str]:
    txt = (model_v or VERIF / "coq" / "X86" / "Model.v").read_text()
    m = re.search(r"Inductive intrin :=(.*?)\.\n", txt, flags=re.S)
    if not m:
        raise SystemExit("py2coq_x86: cannot find `Inductive intrin` in Model.v")
    return set("_" + c[2:] for c in re.findall(r"\bI_[A-Za-z0-9_]+", m.group(1)))


# ---------------------------------------------------------------------------------------------- signatures
def _ety(instr, bt):
    from exo.core.LoopIR import T
    table = [(T.f32, "F32"), (T.f64, "F64"), (T.R, "RT"), (T.ui16, "U16")]
    for t, n in table:
        if bt == t:
            return n
    raise Unsupported(instr, "element type %s" % bt)


def signature(instr, p):
    """-> list of dict(name, kind in reg|mem|scal|size, ety, len (int|str), mem)"""
    from exo.core.LoopIR import LoopIR, T
    out = []
    for a in p.args:
        nm = a.name.name()
        memname = a.mem.name() if a.mem is not None else "DRAM"
        ty = a.type
        if ty == T.size:
            out.append(dict(name=nm, kind="size", ety=None, len=None, mem=None))
        elif ty.is_real_scalar():
            if memname != "DRAM":
                raise Unsupported(instr, "scalar argument %s in memory %s" % (nm, memname))
            out.append(dict(name=nm, kind="scal", ety=_ety(instr, ty), len=1, mem="DRAM"))
        elif isinstance(ty, T.Tensor):
            if not ty.is_window:
                raise Unsupported(instr, "non-window tensor argument %s" % nm)
            shp = ty.shape()
            if len(shp) != 1:
                raise Unsupported(instr, "%d-dimensional argument %s" % (len(shp), nm))
            e = shp[0]
            if isinstance(e, LoopIR.Const) and isinstance(e.val, int):
                ln = int(e.val)
            elif isinstance(e, LoopIR.Read) and not e.idx and e.type == T.size:
                ln = e.name.name()
            else:
                raise Unsupported(instr, "extent %s of argument %s" % (e, nm))
            et = _ety(instr, ty.basetype())
            if memname in ("AVX2", "AVX512"):
                width = {"AVX2": {"F32": 8, "F64": 4, "U16": 16}, "AVX512": {"F32": 16}}[memname].get(et)
                if width is None or ln != width:
                    raise Unsupported(instr, "register argument %s : [%s][%s] @ %s is not one full vector" % (nm, et, ln, memname))
                out.append(dict(name=nm, kind="reg", ety=et, len=ln, mem=memname))
            elif memname == "DRAM":
                out.append(dict(name=nm, kind="mem", ety=et, len=ln, mem="DRAM"))
            else:
                raise Unsupported(instr, "memory %s of argument %s" % (memname, nm))
        else:
            raise Unsupported(instr, "argument type %s of %s" % (ty, nm))
    names = [a["name"] for a in out]
    if len(set(names)) != len(names):
        raise Unsupported(instr, "duplicate argument names %s" % names)
    return out


def check_memory_rules():
    """The register model (an AVX window = one whole vector variable `base[idx..]`, last index dropped, unit
    stride asserted by the memory) is tied to libs/memories.py by evaluating its alloc/window rules."""
    from exo.libs.memories import AVX2, AVX512
    for mem, cty, w in ((AVX2, "__m256", "8"), (AVX512, "__m512", "16")):
        ok = (
            mem.window(None, "b", ["3", "0"], ["%s" % w, "1"], None) == "b[3]"
            and mem.window(None, "b", ["0"], ["1"], None) == "b"
            and mem.alloc("b", "float", ["2", w], None).replace(" ", "") == ("%s b[2];" % cty).replace(" ", "")
            and mem.alloc("b", "float", [w], None).replace(" ", "") == ("%s b;" % cty).replace(" ", "")
            and mem.can_read() is False
            and mem.free("b", "float", [w], None) == ""
        )
        if not ok:
            raise Unsupported("<memories.%s>" % mem.name(), "alloc/window rule differs from the register model")
        try:
            mem.alloc("b", "float", ["4"], None)
            raise Unsupported("<memories.%s>" % mem.name(), "alloc accepts a partial vector")
        except Unsupported:
            raise
        except Exception:
            pass
    if AVX2.alloc("b", "double", ["4"], None).replace(" ", "") != "__m256db;" or \
            AVX2.alloc("b", "uint16_t", ["16"], None).replace(" ", "") != "__m256ib;":
        raise Unsupported("<memories.AVX2>", "alloc rule for f64/ui16 differs from the register model")


def check_externs():
    from exo.libs.externs import select, relu
    for nm, ext in (("select", select), ("relu", relu)):
        for ct in ("float", "double"):
            if EXTERN_TEXT[nm] not in ext.globl(ct):
                raise Unsupported("<extern %s>" % nm, "definition text differs from the modelled one")


# ---------------------------------------------------------------------------------------------- predicates / body
def _iexpr(instr, e):
    from exo.core.LoopIR import LoopIR
    if isinstance(e, LoopIR.Const) and isinstance(e.val, int) and not isinstance(e.val, bool):
        return ("ILit", int(e.val))
    if isinstance(e, LoopIR.Read) and not e.idx and e.type.is_indexable():
        return ("IVar", e.name.name())
    if isinstance(e, LoopIR.BinOp) and e.op in ("+", "-", "*") and e.type.is_indexable():
        return ("IBin", {"+": "IAdd", "-": "ISub", "*": "IMul"}[e.op], _iexpr(instr, e.lhs), _iexpr(instr, e.rhs))
    raise Unsupported(instr, "index expression %s" % e)


def _bexpr(instr, e):
    from exo.core.LoopIR import LoopIR
    if isinstance(e, LoopIR.BinOp) and e.op in ("<", "<=", ">", ">=", "=="):
        op = {"<": "CLt", "<=": "CLe", ">": "CGt", ">=": "CGe", "==": "CEq"}[e.op]
        return ("BCmp", op, _iexpr(instr, e.lhs), _iexpr(instr, e.rhs))
    if isinstance(e, LoopIR.BinOp) and e.op in ("and", "or"):
        return ({"and": "BAnd", "or": "BOr"}[e.op], _bexpr(instr, e.lhs), _bexpr(instr, e.rhs))
    raise Unsupported(instr, "boolean expression %s" % e)


def predicates(instr, p, sig):
    """-> (list of bexpr for the non-stride assertions, set of names with `stride(x,0) == 1`)"""
    from exo.core.LoopIR import LoopIR
    preds, unit = [], set()
    for e in p.preds:
        if (isinstance(e, LoopIR.BinOp) and e.op == "==" and isinstance(e.lhs, LoopIR.StrideExpr)
                and isinstance(e.rhs, LoopIR.Const) and e.rhs.val == 1 and e.lhs.dim == 0):
            unit.add(e.lhs.name.name())
            continue
        if any(isinstance(x, LoopIR.StrideExpr) for x in (getattr(e, "lhs", None), getattr(e, "rhs", None))):
            raise Unsupported(instr, "stride assertion %s" % e)
        preds.append(_bexpr(instr, e))
    return preds, unit


def missing_unit_stride(sig, unit):
    """DRAM windows of more than one element without `stride(x, 0) == 1`: the assertions then permit a
    non-unit-stride placement, which the (contiguous-window) memory model excludes"""
    return [a["name"] for a in sig if a["kind"] == "mem" and a["len"] != 1 and a["name"] not in unit]


def _dexpr(instr, e):
    from exo.core.LoopIR import LoopIR
    if isinstance(e, LoopIR.Read):
        if not e.type.is_real_scalar():
            raise Unsupported(instr, "read of non-scalar %s" % e)
        return ("DRead", e.name.name(), [_iexpr(instr, i) for i in e.idx])
    if isinstance(e, LoopIR.Const):
        if isinstance(e.val, bool) or not isinstance(e.val, (int, float)):
            raise Unsupported(instr, "constant %r" % (e.val,))
        q = Fraction(e.val)
        return ("DLit", q.numerator, q.denominator)
    if isinstance(e, LoopIR.BinOp) and e.op in ("+", "-", "*", "/"):
        op = {"+": "DAdd", "-": "DSub", "*": "DMul", "/": "DDiv"}[e.op]
        return ("DBin", op, _dexpr(instr, e.lhs), _dexpr(instr, e.rhs))
    if isinstance(e, LoopIR.USub):
        return ("DNeg", _dexpr(instr, e.arg))
    if isinstance(e, LoopIR.Extern):
        nm = e.f.name()
        if nm not in ("select", "relu"):
            raise Unsupported(instr, "extern %s" % nm)
        return ("DExt", {"select": "XSelect", "relu": "XRelu"}[nm], [_dexpr(instr, a) for a in e.args])
    raise Unsupported(instr, "data expression %s" % type(e).__name__)


def _stmts(instr, ss, sig):
    from exo.core.LoopIR import LoopIR
    out = []
    argnames = {a["name"] for a in sig}
    for s in ss:
        if isinstance(s, (LoopIR.Assign, LoopIR.Reduce)):
            if s.name.name() not in argnames:
                raise Unsupported(instr, "write to non-argument %s" % s.name)
            if len(s.idx) > 1:
                raise Unsupported(instr, "multi-dimensional write")
            out.append(("Assign" if isinstance(s, LoopIR.Assign) else "Reduce", s.name.name(),
                        [_iexpr(instr, i) for i in s.idx], _dexpr(instr, s.rhs)))
        elif isinstance(s, LoopIR.For):
            if not isinstance(s.loop_mode, LoopIR.Seq):
                raise Unsupported(instr, "loop mode %s" % s.loop_mode)
            out.append(("For", s.iter.name(), _iexpr(instr, s.lo), _iexpr(instr, s.hi), _stmts(instr, s.body, sig)))
        elif isinstance(s, LoopIR.If):
            out.append(("If", _bexpr(instr, s.cond), _stmts(instr, s.body, sig), _stmts(instr, s.orelse, sig)))
        elif isinstance(s, LoopIR.Pass):
            out.append(("Pass",))
        else:
            raise Unsupported(instr, "statement %s" % type(s).__name__)
    return out


# ---------------------------------------------------------------------------------------------- C fragment parser
TOK = re.compile(r"""
    (?P<ws>\s+)
  | (?P<flt>\d+\.\d*f?|\d+f)
  | (?P<int>\d+)
  | (?P<id>[A-Za-z_][A-Za-z0-9_]*)
  | (?P<op><<|\+=|[(){},;=&*\-+])
""", re.X)


def tokenize(instr, fmt):
    toks = []
    try:
        parts = list(string.Formatter().parse(fmt))
    except ValueError as e:
        raise Unsupported(instr, "format string: %s" % e)
    for lit, field, spec, conv in parts:
        pos = 0
        while pos < len(lit):
            m = TOK.match(lit, pos)
            if not m:
                raise Unsupported(instr, "C token at %r" % lit[pos:pos + 20])
            pos = m.end()
            k = m.lastgroup
            if k != "ws":
                toks.append((k, m.group(k)))
        if field is not None:
            if spec or conv:
                raise Unsupported(instr, "format spec in {%s}" % field)
            toks.append(("ph", field))
    return toks


class CParser:
    def __init__(self, instr, toks, sig, known):
        self.instr, self.toks, self.pos = instr, toks, 0
        self.sig = {a["name"]: a for a in sig}
        self.known = known
        self.locals: set[str] = set()
        self.calls: list[str] = []
        self.unknown_calls: list[str] = []

    def bad(self, what):
        ctx = " ".join(t[1] for t in self.toks[max(0, self.pos - 3): self.pos + 4])
        raise Unsupported(self.instr, "%s near `%s`" % (what, ctx))

    def peek(self, k=0):
        return self.toks[self.pos + k] if self.pos + k < len(self.toks) else ("eof", "")

    def eat(self, kind=None, val=None):
        t = self.peek()
        if (kind and t[0] != kind) or (val is not None and t[1] != val):
            self.bad("expected %s" % (val or kind))
        self.pos += 1
        return t

    def at(self, val):
        return self.peek()[1] == val and self.peek()[0] in ("op", "id")

    # placeholders -----------------------------------------------------------------
    def placeholder(self, field):
        if field in self.sig:
            a = self.sig[field]
            if a["kind"] == "size":
                return ("EArg", ("PInt",), field)
            if a["kind"] == "scal":
                return ("EArg", ("PPtr", a["ety"]), field)
            self.bad("window struct placeholder {%s}" % field)
        if field.endswith("_data") and field[:-5] in self.sig:
            a = self.sig[field[:-5]]
            if a["kind"] == "reg":
                return ("EArg", ("PReg", a["ety"], a["len"]), a["name"])
            if a["kind"] == "mem":
                return ("EArg", ("PLval", a["ety"]), a["name"])
            if a["kind"] == "scal":
                return ("EArg", ("PPtr", a["ety"]), a["name"])
            return ("EArg", ("PInt",), a["name"])
        self.bad("placeholder {%s}" % field)

    # types -------------------------------------------------------------------------
    def try_type(self):
        """at '(' : parse `( [const] T [*] )`; returns (T, is_ptr) or None without consuming."""
        p = self.pos
        if self.peek()[1] != "(":
            return None
        k = 1
        if self.peek(k) == ("id", "const"):
            k += 1
        t = self.peek(k)
        if t[0] != "id" or not (t[1] in VEC_TYPES or t[1] in INT_VEC_TYPES or t[1] in ("float", "double")):
            return None
        k += 1
        ptr = False
        if self.peek(k) == ("op", "*"):
            ptr = True
            k += 1
        if self.peek(k) != ("op", ")"):
            return None
        self.pos = p + k + 1
        return t[1], ptr

    # expressions --------------------------------------------------------------------
    def expr(self):
        e = self.additive()
        while self.at("<<"):
            self.eat()
            e = ("EBin", "CShl", e, self.additive())
        return e

    def additive(self):
        e = self.primary()
        while self.peek() in (("op", "-"), ("op", "+")):
            op = self.eat()[1]
            e = ("EBin", "CSub" if op == "-" else "CAdd", e, self.primary())
        return e

    def number(self, neg=False):
        k, v = self.eat()
        if k == "int":
            return ("EInt", -int(v) if neg else int(v))
        if k == "flt":
            q = Fraction(v.rstrip("f"))
            if neg:
                q = -q
            return ("EFlt", q.numerator, q.denominator)
        self.bad("number")

    def initlist(self, lanes):
        self.eat("op", "{")
        items = []
        while not self.at("}"):
            neg = False
            if self.at("-"):
                self.eat()
                neg = True
            items.append(self.number(neg))
            if self.at(","):
                self.eat()
        self.eat("op", "}")
        if len(items) > lanes:
            self.bad("initialiser longer than the vector")
        return ("EInit", lanes, items)

    def primary(self):
        k, v = self.peek()
        if k in ("int", "flt"):
            return self.number()
        if k == "op" and v == "-" and self.peek(1)[0] in ("int", "flt"):
            self.eat()
            return self.number(neg=True)
        if k == "ph":
            self.eat()
            return self.placeholder(v)
        if k == "op" and v == "&":
            self.eat()
            t = self.eat("ph")
            e = self.placeholder(t[1])
            if e[1][0] != "PLval":
                self.bad("address of a non-DRAM placeholder")
            return ("EAddr", e)
        if k == "op" and v == "(":
            ty = self.try_type()
            if ty is not None:
                tname, ptr = ty
                if ptr:
                    return ("ECast", self.primary())
                if tname in VEC_TYPES and self.at("{"):
                    return self.initlist(VEC_TYPES[tname])
                self.bad("value cast to %s" % tname)
            self.eat("op", "(")
            e = self.expr()
            self.eat("op", ")")
            return e
        if k == "id":
            self.eat()
            if self.at("("):
                self.eat()
                args = []
                while not self.at(")"):
                    args.append(self.expr())
                    if self.at(","):
                        self.eat()
                    elif not self.at(")"):
                        self.bad("argument list")
                self.eat("op", ")")
                self.calls.append(v)
                if v not in self.known:
                    self.unknown_calls.append(v)
                return ("ECall", "I" + v, args)
            if v in NAMED_CONSTANTS:
                return ("EInt", NAMED_CONSTANTS[v])
            if v in self.locals:
                return ("EVar", v)
            self.bad("identifier %s" % v)
        self.bad("expression")

    # statements -----------------------------------------------------------------------
    def stmts(self, until=None):
        out = []
        while self.peek()[0] != "eof" and not (until and self.at(until)):
            out.append(self.stmt())
        return out

    def stmt(self):
        k, v = self.peek()
        if k == "op" and v == "{":
            self.eat()
            saved = set(self.locals)
            body = self.stmts(until="}")
            self.eat("op", "}")
            self.locals = saved
            return ("SBlock", body)
        if k == "id" and (v in VEC_TYPES or v in INT_VEC_TYPES) and self.peek(1)[0] == "id":
            self.eat()
            name = self.eat("id")[1]
            self.eat("op", "=")
            if self.at("{"):
                if v not in VEC_TYPES:
                    self.bad("initialiser list of type %s" % v)
                e = self.initlist(VEC_TYPES[v])
            else:
                e = self.expr()
            self.eat("op", ";")
            if name in self.locals:
                self.bad("redeclaration of %s" % name)
            self.locals.add(name)
            return ("SDecl", name, e)
        if k == "op" and v == "*":
            self.eat()
            t = self.eat("ph")
            p = self.placeholder(t[1])
            if p[1][0] != "PPtr":
                self.bad("dereference of a non-pointer placeholder")
            self.eat("op", "+=")
            e = self.expr()
            self.eat("op", ";")
            return ("SDerefAdd", p, e)
        if (k == "ph" or (k == "id" and v in self.locals)) and self.peek(1) == ("op", "="):
            self.eat()
            lhs = self.placeholder(v) if k == "ph" else ("EVar", v)
            if k == "ph" and lhs[1][0] != "PReg":
                self.bad("assignment to non-register placeholder {%s}" % v)
            self.eat("op", "=")
            e = self.expr()
            self.eat("op", ";")
            return ("SAssign", lhs, e)
        e = self.expr()
        self.eat("op", ";")
        if e[0] != "ECall":
            self.bad("expression statement that is not a call")
        return ("SExpr", e)


def parse_fragment(instr, fmt, sig, known):
    ps = CParser(instr, tokenize(instr, fmt), sig, known)
    frag = ps.stmts()
    if ps.pos != len(ps.toks):
        ps.bad("trailing tokens")
    if sum(1 for c in ps.calls if c in UNDEF_PRODUCERS) > 1:
        raise Unsupported(instr, "more than one intrinsic with undefined result lanes in one fragment")
    return frag, ps.calls, ps.unknown_calls


# ---------------------------------------------------------------------------------------------- driver
def load_instrs(repo: Path | None = None):
    """-> list of (name, Procedure) for every @instr of exo.platforms.x86, in source order."""
    repo = Path(repo or REPO)
    src = str(repo / "src")
    if src not in sys.path:
        sys.path.insert(0, src)
    import exo.platforms.x86 as X
    from exo.API import Procedure
    if not Path(X.__file__).resolve().is_relative_to(repo.resolve()):
        raise SystemExit("py2coq_x86: exo imported from %s, not from %s" % (X.__file__, repo))
    ps = [(n, v) for n, v in vars(X).items() if isinstance(v, Procedure) and v._loopir_proc.instr is not None]
    ps.sort(key=lambda nv: nv[1]._loopir_proc.srcinfo.lineno)
    for n, v in ps:
        if v._loopir_proc.name != n:
            raise Unsupported(n, "procedure name %s differs from its binding" % v._loopir_proc.name)
    # textual cross-check: the number of @instr decorators in the file equals the number of instrs found
    ndec = len(re.findall(r"^@instr\(", Path(X.__file__).read_text(), flags=re.M))
    if ndec != len(ps):
        raise Unsupported("<x86.py>", "%d @instr decorators but %d instruction procedures" % (ndec, len(ps)))
    return ps, Path(X.__file__)


def translate_all(repo: Path | None = None):
    """-> (instruction records, path).  A failure of the GLOBAL checks (import, memory rules, externs) raises
    Unsupported; a failure inside ONE instruction is recorded in that instruction's `failclosed` list
    ({stage, construct[, kind, args]}) and the instruction is left out of the generated terms, so that the other
    instructions stay checked.  Whatever could still be computed (signature, assertions, ...) is kept for the
    failing-input search."""
    known = modelled_intrinsics()
    ps, path = load_instrs(repo)
    check_memory_rules()
    check_externs()
    out = []
    for name, proc in ps:
        p = proc._loopir_proc
        I = dict(name=name, sig=None, preds=[], unit_stride=[], frag=[], body=[], calls=[], unmodelled=[],
                 c_instr=p.instr.c_instr, failclosed=[])
        try:
            I["sig"] = signature(name, p)
        except Unsupported as e:
            I["failclosed"].append(dict(stage="signature", construct=e.construct))
            out.append(I)
            continue
        try:
            preds, unit = predicates(name, p, I["sig"])
            I["preds"], I["unit_stride"] = preds, sorted(unit)
            miss = missing_unit_stride(I["sig"], unit)
            if miss:
                I["failclosed"].append(dict(
                    stage="assertions", kind="non-unit-stride", args=miss,
                    construct="DRAM window %s has more than one element and no `stride(%s, 0) == 1` assertion "
                              "(the memory model is unit stride)" % (miss[0], miss[0])))
        except Unsupported as e:
            I["failclosed"].append(dict(stage="assertions", construct=e.construct))
            I["preds"] = None
        try:
            I["body"] = _stmts(name, p.body, I["sig"])
        except Unsupported as e:
            I["failclosed"].append(dict(stage="body", construct=e.construct))
        try:
            I["frag"], I["calls"], unknown = parse_fragment(name, p.instr.c_instr, I["sig"], known)
            I["unmodelled"] = sorted(set(unknown))
        except Unsupported as e:
            I["failclosed"].append(dict(stage="fragment", construct=e.construct))
        out.append(I)
    return out, path


# ---------------------------------------------------------------------------------------------- printers
def _z(n):
    return "(%d)" % n if n < 0 else "%d" % n


def gal(x):
    """Python AST -> Gallina term."""
    if isinstance(x, list):
        return "[" + "; ".join(gal(y) for y in x) + "]"
    if isinstance(x, bool):
        return "true" if x else "false"
    if isinstance(x, int):
        return _z(x)
    if isinstance(x, str):
        return x
    assert isinstance(x, tuple), x
    tag = x[0]
    strpos = {"EArg": [2], "EVar": [1], "SDecl": [1], "IVar": [1], "DRead": [1], "Assign": [1], "Reduce": [1], "For": [1]}
    if len(x) == 1:
        return tag
    parts = []
    for i, y in enumerate(x[1:], start=1):
        if i in strpos.get(tag, []):
            parts.append('"%s"' % y)
        else:
            parts.append(gal(y))
    return "(" + tag + " " + " ".join(parts) + ")"


def sx(x):
    """Python AST -> s-expression (constructor names as in Model.v; lists as (list ...))."""
    if isinstance(x, list):
        return "(list" + "".join(" " + sx(y) for y in x) + ")"
    if isinstance(x, int):
        return str(x)
    if isinstance(x, str):
        return x
    return "(" + " ".join(sx(y) for y in x) + ")"


def akind(a):
    if a["kind"] == "reg":
        return ("KReg", a["ety"], a["len"])
    if a["kind"] == "mem":
        ln = ("ILit", a["len"]) if isinstance(a["len"], int) else ("IVar", a["len"])
        return ("KMem", a["ety"], ln)
    if a["kind"] == "scal":
        return ("KScal", a["ety"])
    return ("KSize",)


def emit_v(instrs, path: Path) -> str:
    sha = hashlib.sha256(path.read_bytes()).hexdigest()
    o = []
    o.append("(* GENERATED by translator/py2coq_x86.py from %s (sha256 %s) -- do not edit *)" % (path, sha[:16]))
    o.append("From Coq Require Import ZArith List String.")
    o.append("From X86 Require Import Model.")
    o.append("Import ListNotations.")
    o.append("Open Scope Z_scope.\nOpen Scope string_scope.\n")
    done, unm = [], []
    for I in instrs:
        if I.get("failclosed"):
            o.append("(* %s : FAIL CLOSED, no term generated: %s *)\n" % (
                I["name"], "; ".join(f["construct"] for f in I["failclosed"]).replace("(*", "( *").replace("*)", "* )")))
            continue
        if I["unmodelled"]:
            unm.append(I["name"])
            o.append("(* %s : NOT MODELLED (intrinsics without a model: %s) *)\n" % (I["name"], ", ".join(I["unmodelled"])))
            continue
        sig = "[" + "; ".join('("%s", %s)' % (a["name"], gal(akind(a))) for a in I["sig"]) + "]"
        o.append("(* %s *)" % I["c_instr"].strip().replace("(*", "( *").replace("*)", "* )"))
        o.append("Definition instr_%s : instr := {|\n  iname := \"%s\";\n  isig := %s;\n  ipreds := %s;\n  ifrag := %s;\n  ibody := %s\n|}.\n"
                 % (I["name"], I["name"], sig, gal(I["preds"]), gal(I["frag"]), gal(I["body"])))
        done.append(I["name"])
    o.append("Definition all_instrs : list instr := [%s]." % "; ".join("instr_" + n for n in done))
    o.append("Definition unmodelled_instrs : list string := [%s]." % "; ".join('"%s"' % n for n in unm))
    return "\n".join(o) + "\n"



def translate_probes(probes):
    """probe fragments (harness/c14_probes.py) through the same parser; -> list shaped like translate_all()'s."""
    known = modelled_intrinsics()
    out = []
    for pr in probes:
        frag, calls, unknown = parse_fragment(pr["name"], pr["fmt"], pr["sig"], known)
        if unknown:
            raise Unsupported(pr["name"], "probe calls unmodelled intrinsics %s" % unknown)
        out.append(dict(name=pr["name"], sig=pr["sig"], preds=[], unit_stride=[], frag=frag, body=[],
                        calls=calls, unmodelled=[], c_instr=pr["fmt"], opt=pr.get("opt", {})))
    return out


def emit_probes_v(probes) -> str:
    o = ["(* GENERATED by translator/py2coq_x86.py from harness/c14_probes.py -- do not edit *)",
         "From Coq Require Import ZArith List String.", "From X86 Require Import Model.", "Import ListNotations.",
         "Open Scope Z_scope.\nOpen Scope string_scope.\n"]
    for I in probes:
        sig = "[" + "; ".join('("%s", %s)' % (a["name"], gal(akind(a))) for a in I["sig"]) + "]"
        o.append("Definition %s : instr := {| iname := \"%s\"; isig := %s; ipreds := []; ifrag := %s; ibody := [] |}."
                 % (I["name"], I["name"], sig, gal(I["frag"])))
    o.append("Definition all_probes : list instr := [%s]." % "; ".join(I["name"] for I in probes))
    return "\n".join(o) + "\n"


def sidecar(instrs):
    js = []
    for I in instrs:
        js.append(dict(name=I["name"], sig=I["sig"], preds=sx(I["preds"] or []), preds_ast=I["preds"],
                       unit_stride=I["unit_stride"], calls=I["calls"], unmodelled=I["unmodelled"],
                       c_instr=I["c_instr"], frag=sx(I["frag"]), body=sx(I["body"]), opt=I.get("opt", {}),
                       failclosed=I.get("failclosed", [])))
    return js


def write_if_changed(path: Path, text: str):
    """keep the mtime when nothing changed, so that `make` does not re-check every proof on every run"""
    if path.exists() and path.read_text() == text:
        return False
    path.write_text(text)
    return True


def main(argv):
    outdir = Path(argv[1]) if len(argv) > 1 else VERIF / "coq" / "X86"
    (outdir / "_build").mkdir(exist_ok=True)
    for stale in ("instrs.json", "probes.json"):        # never leave a sidecar of an earlier source behind
        if (outdir / "_build" / stale).exists():
            (outdir / "_build" / stale).unlink()
    try:
        instrs, path = translate_all()
    except Unsupported as e:
        print("py2coq_x86: FAIL CLOSED: %s" % e, file=sys.stderr)
        return 2
    write_if_changed(outdir / "Gen_X86Instrs.v", emit_v(instrs, path))
    (outdir / "_build" / "instrs.json").write_text(json.dumps(sidecar(instrs), indent=1))
    sys.path.insert(0, str(VERIF / "harness"))
    try:
        import c14_probes
        probes = translate_probes(c14_probes.PROBES)
    except Unsupported as e:
        print("py2coq_x86: FAIL CLOSED (probe table): %s" % e, file=sys.stderr)
        return 3
    write_if_changed(outdir / "Gen_X86Probes.v", emit_probes_v(probes))
    (outdir / "_build" / "probes.json").write_text(json.dumps(sidecar(probes), indent=1))
    unm = [I["name"] for I in instrs if I["unmodelled"] and not I["failclosed"]]
    bad = [I for I in instrs if I["failclosed"]]
    print("py2coq_x86: %d instructions translated, %d unmodelled%s, %d fail closed" % (
        len(instrs) - len(unm) - len(bad), len(unm), (": " + ", ".join(unm)) if unm else "", len(bad)))
    for I in bad:       # fail closed: non-zero exit naming the instruction and the construct
        for f in I["failclosed"]:
            print("py2coq_x86: FAIL CLOSED: instruction %s: unsupported construct: %s" % (I["name"], f["construct"]),
                  file=sys.stderr)
    return 4 if bad else 0


if __name__ == "__main__":
    sys.exit(main(sys.argv))
