#!/venv/bin/python
"""py2coq_partraverse.py — fail-closed Python-ast -> Gallina translator for the traversal skeleton of
``exo/backend/parallel_analysis.py`` (class ParallelAnalysis) and the ``LoopIR_Rewrite`` dispatch it inherits
(``exo/core/LoopIR.py``).  Property C09.

    py2coq_partraverse.py [--repo DIR] [-o OUT.v]

What is produced (Gen_ParTraverse.v, over coq/Par/TraverseLang.v and Core's `stmt`):

    Fixpoint pa_map_s (chk : stmt -> bool) (s : stmt) : eff          <- ParallelAnalysis.map_s, with
                                                                         `super().map_s(s)` replaced by the
                                                                         translated LoopIR_Rewrite.map_s dispatch and
                                                                         `self.map_stmts(l)` by the iteration of
                                                                         pa_map_s over l (open recursion resolved:
                                                                         the translator checks that no other method
                                                                         of the chain is overridden)
    Definition pa_map_stmts / pa_apply_proc / pa_run / visited

Only the EFFECTS of the traversal are translated (TraverseLang.v): invocations of Check_ParallelizeLoop
(`t_check`), calls of self.err (`t_err`), escaping exceptions (abort), and the order of recursive descents.
The values the rewriter computes (new_type, new_idx, the returned statement lists) carry no effect: the
translator CHECKS that every expression it drops contains no call that could reach map_s / map_stmts / err /
Check_ParallelizeLoop (methods map_e, map_t, map_exprs, map_fnarg, map_w_access are scanned for that).

Supported grammar (anything else => exit 2 naming the construct and the line):
  ParallelAnalysis            bases == [LoopIR_Rewrite]; methods == {__init__, run, err, map_s}
    __init__                  self._errors = []
    err                       self._errors.append(<effect-free expr>)
    run                       [assert ..]; self.proc = proc; proc = super().apply_proc(proc);
                              [if self._errors: <effect-free stmts>; raise ..]; return proc
    map_s(self, s)            statements:  if C: .. [else: ..] | try: .. except[ Exception|BaseException]: ..
                                           | Check_ParallelizeLoop(self.proc, s) | self.err(s, <const/f-string>)
                                           | [return] super().map_s(s) | r = super().map_s(s) .. return r
                                           | return [None] | pass | raise ..
                              conditions:  isinstance(s, LoopIR.K | (LoopIR.K, ..)),
                                           isinstance(s.loop_mode, LoopIR.Par|LoopIR.Seq)  (only where s is known to
                                           be a LoopIR.For: to the right of `isinstance(s, LoopIR.For) and`, inside
                                           `if isinstance(s, LoopIR.For):`, or after `if not isinstance(..): return`),
                                           and / or / not
  LoopIR_Rewrite
    apply_proc                return self.map_proc(old) or old
    map_proc                  exactly one call self.map_stmts(p.body), as a top-level assignment; no other
                              traversal call
    map_stmts                 return self._map_list(self.map_s, stmts)
    _map_list(fn, nodes)      one `for s in nodes:` loop whose first statement is `<v> = fn(s)`, no break / return /
                              continue inside
    map_s(self, s)            if/elif chain over isinstance(s, ..); in each branch the calls self.map_stmts(s.<attr>)
                              must be top-level assignments (they are the recursive descents, in order); everything
                              else must be effect-free; `else: raise ..` => abort for unmatched constructors
"""
import ast
import os
import sys

PA_SRC = "src/exo/backend/parallel_analysis.py"
IR_SRC = "src/exo/core/LoopIR.py"

# Python LoopIR statement class -> (Core constructor pattern, {python attr -> bound variable})
CTORS = {
    "Assign": ("Assign _ _ _", {}),
    "Reduce": ("Reduce _ _ _", {}),
    "WriteConfig": ("WriteCfg _ _", {}),
    "Pass": ("Pass", {}),
    "If": ("If _ body orelse", {"body": "body", "orelse": "orelse"}),
    "For": ("For _ _ _ body _", {"body": "body"}),
    "Alloc": ("Alloc _ _", {}),
    "Call": ("Call _ _", {}),
    "WindowStmt": ("WindowS _ _", {}),
}
# statement classes of LoopIR.py that Core's syntax does not have (never present before MemoryAnalysis)
IGNORED_CTORS = {"Free"}
TRAVERSAL_NAMES = {"map_s", "map_stmts", "apply_s", "apply_stmts", "map_proc", "apply_proc", "err", "run",
                   "Check_ParallelizeLoop", "_map_list"}


class Unsupported(Exception):
    pass


def fail(src, node, msg):
    try:
        txt = ast.unparse(node)
    except Exception:
        txt = "?"
    raise Unsupported("%s:%s: unsupported construct: %s: `%s`" % (src, getattr(node, "lineno", "?"), msg,
                                                                   txt.replace("\n", " ")[:120]))


def find_class(tree, name, src):
    for n in tree.body:
        if isinstance(n, ast.ClassDef) and n.name == name:
            return n
    raise Unsupported("%s: class %s not found" % (src, name))


def methods(cls):
    out = {}
    for n in cls.body:
        if isinstance(n, (ast.FunctionDef, ast.AsyncFunctionDef)):
            out[n.name] = n
        elif isinstance(n, ast.Expr) and isinstance(n.value, ast.Constant):
            continue
        elif isinstance(n, ast.Pass):
            continue
        else:
            out["<stmt@%d>" % n.lineno] = n
    return out


def strip_doc(body):
    if body and isinstance(body[0], ast.Expr) and isinstance(body[0].value, ast.Constant) and isinstance(
            body[0].value.value, str):
        return body[1:]
    return body


def is_self_attr(e, attr=None):
    return (isinstance(e, ast.Attribute) and isinstance(e.value, ast.Name) and e.value.id == "self"
            and (attr is None or e.attr == attr))


def is_super_call(e, meth):
    """super().<meth>(..)"""
    return (isinstance(e, ast.Call) and isinstance(e.func, ast.Attribute) and e.func.attr == meth
            and isinstance(e.func.value, ast.Call) and isinstance(e.func.value.func, ast.Name)
            and e.func.value.func.id == "super" and not e.func.value.args and not e.func.value.keywords)


def effect_free(src, node, extra_forbidden=()):
    """no call/attribute that can reach the traversal or the error list; no lambda/comprehension hiding one"""
    for n in ast.walk(node):
        if isinstance(n, ast.Attribute) and (n.attr in TRAVERSAL_NAMES or n.attr in extra_forbidden):
            fail(src, node, "expression dropped by the translator mentions `%s`" % n.attr)
        if isinstance(n, ast.Name) and n.id in ("Check_ParallelizeLoop", "super", "getattr", "setattr", "eval",
                                                "exec", "globals", "locals", "vars"):
            fail(src, node, "expression dropped by the translator mentions `%s`" % n.id)
        if isinstance(n, (ast.Lambda, ast.Await, ast.Yield, ast.YieldFrom)):
            fail(src, node, "lambda/await/yield")


# ============================================================================ ParallelAnalysis
class PA:
    def __init__(self, repo):
        self.repo = repo
        self.src = PA_SRC
        path = os.path.join(repo, PA_SRC)
        self.tree = ast.parse(open(path).read(), path)
        self.cls = find_class(self.tree, "ParallelAnalysis", PA_SRC)
        self.check_imports()
        self.check_class()

    def check_imports(self):
        ok = False
        for n in self.tree.body:
            if isinstance(n, ast.ImportFrom):
                for a in n.names:
                    nm = a.asname or a.name
                    if nm == "Check_ParallelizeLoop":
                        if a.name != "Check_ParallelizeLoop" or not (n.module or "").endswith("new_eff"):
                            fail(self.src, n, "Check_ParallelizeLoop is not the one of rewrite.new_eff")
                        ok = True
                    if nm in ("LoopIR_Rewrite", "LoopIR") and not (n.module or "").endswith("core.LoopIR"):
                        fail(self.src, n, "%s is not imported from core.LoopIR" % nm)
            elif isinstance(n, (ast.ClassDef, ast.Import)):
                continue
            elif isinstance(n, ast.Expr) and isinstance(n.value, ast.Constant):
                continue
            else:
                fail(self.src, n, "module-level statement (could rebind Check_ParallelizeLoop or patch the class)")
        if not ok:
            raise Unsupported("%s: Check_ParallelizeLoop is not imported from ..rewrite.new_eff" % self.src)
        for n in self.tree.body:
            if isinstance(n, ast.ClassDef) and n.name != "ParallelAnalysis":
                fail(self.src, n, "additional class in parallel_analysis.py")

    def check_class(self):
        c = self.cls
        if len(c.bases) != 1 or not (isinstance(c.bases[0], ast.Name) and c.bases[0].id == "LoopIR_Rewrite"):
            fail(self.src, c, "ParallelAnalysis must derive from LoopIR_Rewrite only")
        if c.decorator_list or c.keywords:
            fail(self.src, c, "class decorators / metaclass")
        ms = methods(c)
        want = {"__init__", "run", "err", "map_s"}
        if set(ms) != want:
            raise Unsupported("%s: ParallelAnalysis must define exactly %s (found %s): an overridden traversal "
                              "method would change which statements are visited" % (self.src, sorted(want),
                                                                                    sorted(ms)))
        for m in ms.values():
            if m.decorator_list:
                fail(self.src, m, "decorated method")
        self.ms = ms
        # __init__
        b = strip_doc(ms["__init__"].body)
        if not (len(b) == 1 and isinstance(b[0], ast.Assign) and len(b[0].targets) == 1
                and is_self_attr(b[0].targets[0], "_errors") and isinstance(b[0].value, ast.List)
                and not b[0].value.elts):
            fail(self.src, ms["__init__"], "__init__ must be `self._errors = []`")
        # err
        b = strip_doc(ms["err"].body)
        if not (len(b) == 1 and isinstance(b[0], ast.Expr) and isinstance(b[0].value, ast.Call)
                and isinstance(b[0].value.func, ast.Attribute) and b[0].value.func.attr == "append"
                and is_self_attr(b[0].value.func.value, "_errors") and len(b[0].value.args) == 1):
            fail(self.src, ms["err"], "err must be `self._errors.append(..)`")
        effect_free(self.src, b[0].value.args[0])

    # ---------------------------------------------------------------- run
    def translate_run(self):
        """-> raise_if_errors : bool"""
        f = self.ms["run"]
        if [a.arg for a in f.args.args] != ["self", "proc"]:
            fail(self.src, f, "signature of run")
        body = strip_doc(f.body)
        i = 0
        while i < len(body) and isinstance(body[i], ast.Assert):
            effect_free(self.src, body[i])
            i += 1
        st = body[i] if i < len(body) else None
        if not (isinstance(st, ast.Assign) and len(st.targets) == 1 and is_self_attr(st.targets[0], "proc")
                and isinstance(st.value, ast.Name) and st.value.id == "proc"):
            fail(self.src, st or f, "expected `self.proc = proc`")
        i += 1
        st = body[i] if i < len(body) else None
        if not (isinstance(st, ast.Assign) and len(st.targets) == 1 and isinstance(st.targets[0], ast.Name)
                and is_super_call(st.value, "apply_proc") and len(st.value.args) == 1
                and isinstance(st.value.args[0], ast.Name) and st.value.args[0].id == "proc"):
            fail(self.src, st or f, "expected `proc = super().apply_proc(proc)`")
        i += 1
        raise_if_errors = False
        st = body[i] if i < len(body) else None
        if isinstance(st, ast.If):
            if not (is_self_attr(st.test, "_errors") and not st.orelse):
                fail(self.src, st, "expected `if self._errors:` without else")
            for k, q in enumerate(st.body):
                if k == len(st.body) - 1:
                    if not isinstance(q, ast.Raise) or q.exc is None:
                        fail(self.src, q, "the `if self._errors:` block must end in `raise <exception>`")
                else:
                    if not isinstance(q, ast.Assign):
                        fail(self.src, q, "statement in the error block")
                    effect_free(self.src, q, extra_forbidden=("clear", "pop", "remove"))
            raise_if_errors = True
            i += 1
            st = body[i] if i < len(body) else None
        if not (isinstance(st, ast.Return) and i == len(body) - 1):
            fail(self.src, st or f, "expected a final `return`")
        if st.value is not None:
            effect_free(self.src, st.value)
        return raise_if_errors

    # ---------------------------------------------------------------- map_s
    def cond(self, e, for_known=False):
        """-> Gallina bool term; `s.loop_mode` only where s is known to be a For"""
        if isinstance(e, ast.BoolOp):
            if isinstance(e.op, ast.And):
                parts, known = [], for_known
                for v in e.values:
                    parts.append(self.cond(v, known))
                    if self.is_isinstance_s(v) == ["For"]:
                        known = True
                return "(" + " && ".join(parts) + ")"
            parts = [self.cond(v, for_known) for v in e.values]
            return "(" + " || ".join(parts) + ")"
        if isinstance(e, ast.UnaryOp) and isinstance(e.op, ast.Not):
            return "(negb %s)" % self.cond(e.operand, for_known)
        ks = self.is_isinstance_s(e)
        if ks is not None:
            return "(" + " || ".join("is_%s s" % k for k in ks) + ")"
        if (isinstance(e, ast.Call) and isinstance(e.func, ast.Name) and e.func.id == "isinstance"
                and len(e.args) == 2 and not e.keywords and isinstance(e.args[0], ast.Attribute)
                and isinstance(e.args[0].value, ast.Name) and e.args[0].value.id == self.svar
                and e.args[0].attr == "loop_mode"):
            if not for_known:
                fail(self.src, e, "s.loop_mode read where s is not known to be a LoopIR.For")
            k = self.loopir_names(e.args[1])
            if k == ["Par"]:
                return "(loop_mode_is_Par s)"
            if k == ["Seq"]:
                return "(loop_mode_is_Seq s)"
            fail(self.src, e, "loop mode test")
        if isinstance(e, ast.Constant) and isinstance(e.value, bool):
            return "true" if e.value else "false"
        fail(self.src, e, "condition")

    def loopir_names(self, e):
        def one(x):
            if (isinstance(x, ast.Attribute) and isinstance(x.value, ast.Name) and x.value.id == "LoopIR"):
                return x.attr
            fail(self.src, x, "class expression (expected LoopIR.<Name>)")
        if isinstance(e, ast.Tuple):
            return [one(x) for x in e.elts]
        return [one(e)]

    def is_isinstance_s(self, e):
        if (isinstance(e, ast.Call) and isinstance(e.func, ast.Name) and e.func.id == "isinstance"
                and len(e.args) == 2 and not e.keywords and isinstance(e.args[0], ast.Name)
                and e.args[0].id == self.svar):
            ks = self.loopir_names(e.args[1])
            for k in ks:
                if k not in CTORS:
                    fail(self.src, e, "isinstance test on a class Core's syntax does not have")
            return ks
        return None

    def is_check_call(self, e):
        if isinstance(e, ast.Call) and isinstance(e.func, ast.Name) and e.func.id == "Check_ParallelizeLoop":
            if not (len(e.args) == 2 and not e.keywords and is_self_attr(e.args[0], "proc")
                    and isinstance(e.args[1], ast.Name) and e.args[1].id == self.svar):
                fail(self.src, e, "Check_ParallelizeLoop must be called as (self.proc, %s)" % self.svar)
            return True
        return False

    def is_err_call(self, e):
        if isinstance(e, ast.Call) and is_self_attr(e.func, "err"):
            if not (len(e.args) == 2 and not e.keywords and isinstance(e.args[0], ast.Name)
                    and e.args[0].id == self.svar and isinstance(e.args[1], (ast.Constant, ast.JoinedStr))):
                fail(self.src, e, "self.err must be called as (%s, <message>)" % self.svar)
            if isinstance(e.args[1], ast.JoinedStr):
                effect_free(self.src, e.args[1])
            return True
        return False

    def is_super_map_s(self, e):
        if is_super_call(e, "map_s"):
            if not (len(e.args) == 1 and not e.keywords and isinstance(e.args[0], ast.Name)
                    and e.args[0].id == self.svar):
                fail(self.src, e, "super().map_s must be applied to %s" % self.svar)
            return True
        return False

    def implies_for(self, e):
        """the test being true implies isinstance(s, LoopIR.For)"""
        if self.is_isinstance_s_quiet(e) == ["For"]:
            return True
        if isinstance(e, ast.BoolOp) and isinstance(e.op, ast.And):
            return any(self.implies_for(v) for v in e.values)
        return False

    def implies_for_when_false(self, e):
        """the test being false implies isinstance(s, LoopIR.For)"""
        if isinstance(e, ast.UnaryOp) and isinstance(e.op, ast.Not):
            return self.implies_for(e.operand)
        if isinstance(e, ast.BoolOp) and isinstance(e.op, ast.Or):
            return any(self.implies_for_when_false(v) for v in e.values)
        return False

    def is_isinstance_s_quiet(self, e):
        try:
            return self.is_isinstance_s(e)
        except Unsupported:
            return None

    @staticmethod
    def always_leaves(body):
        return bool(body) and isinstance(body[-1], (ast.Return, ast.Raise))

    def stmts(self, body, k, in_try=False, known=False):
        """continuation-style translation of a statement list; k = Gallina term for what follows;
        known = s is known to be a LoopIR.For here"""
        if not body:
            return k
        st, rest = body[0], body[1:]
        if isinstance(st, ast.Pass):
            return self.stmts(rest, k, in_try, known)
        if isinstance(st, ast.Expr) and isinstance(st.value, ast.Constant):
            return self.stmts(rest, k, in_try, known)
        if (isinstance(st, ast.Assign) and len(st.targets) == 1 and isinstance(st.targets[0], ast.Name)
                and self.is_super_map_s(st.value)):
            # `r = super().map_s(s)`: the descent happens here; r may only be returned
            self.result_vars.add(st.targets[0].id)
            return "(t_seq SUPER %s)" % self.stmts(rest, k, in_try, known)
        if isinstance(st, ast.Return):
            if in_try:
                fail(self.src, st, "return inside try/except")
            if st.value is None or (isinstance(st.value, ast.Constant) and st.value.value is None):
                return "t_skip"
            if isinstance(st.value, ast.Name) and st.value.id in self.result_vars:
                return "t_skip"
            if self.is_super_map_s(st.value):
                return "SUPER"
            fail(self.src, st, "return value")
        if isinstance(st, ast.Raise):
            if st.exc is not None:
                effect_free(self.src, st.exc)
            return "t_raise"
        if isinstance(st, ast.Expr):
            if self.is_check_call(st.value):
                return "(t_seq (t_check chk s) %s)" % self.stmts(rest, k, in_try, known)
            if self.is_err_call(st.value):
                return "(t_seq (t_err s) %s)" % self.stmts(rest, k, in_try, known)
            if self.is_super_map_s(st.value):
                return "(t_seq SUPER %s)" % self.stmts(rest, k, in_try, known)
            fail(self.src, st, "expression statement")
        if isinstance(st, ast.If):
            c = self.cond(st.test, known)
            kb = known or self.implies_for(st.test)
            ko = known or self.implies_for_when_false(st.test)
            # what is known after the if: a branch that always leaves contributes nothing
            kr = known or (self.always_leaves(st.body) and ko) or (self.always_leaves(st.orelse) and kb)
            kk = self.stmts(rest, k, in_try, kr)
            if not any(isinstance(n, (ast.Return, ast.Raise)) for q in st.body + st.orelse for n in ast.walk(q)):
                # both branches fall through: no need to duplicate the continuation
                return "(t_seq (t_if %s %s %s) %s)" % (c, self.stmts(st.body, "t_skip", in_try, kb),
                                                       self.stmts(st.orelse, "t_skip", in_try, ko), kk)
            return "(t_if %s %s %s)" % (c, self.stmts(st.body, kk, in_try, kb), self.stmts(st.orelse, kk, in_try, ko))
        if isinstance(st, ast.Try):
            if st.orelse or st.finalbody or len(st.handlers) != 1:
                fail(self.src, st, "try with else/finally or several handlers")
            h = st.handlers[0]
            if h.type is not None and not (isinstance(h.type, ast.Name) and h.type.id in ("Exception",
                                                                                          "BaseException")):
                fail(self.src, h, "except clause that does not catch every exception of the check")
            if h.name is not None:
                pass  # `except Exception as e:` binds e; its uses are checked effect-free below
            a = self.stmts(st.body, "t_skip", True, known)
            hh = self.stmts(h.body, "t_skip", True, known)
            return "(t_seq (t_try %s %s) %s)" % (a, hh, self.stmts(rest, k, in_try, known))
        fail(self.src, st, "statement")

    def translate_map_s(self):
        f = self.ms["map_s"]
        args = [a.arg for a in f.args.args]
        if len(args) != 2 or args[0] != "self" or f.args.vararg or f.args.kwarg or f.args.kwonlyargs:
            fail(self.src, f, "signature of map_s")
        self.svar = args[1]
        self.result_vars = set()
        return self.stmts(strip_doc(f.body), "t_skip")


# ============================================================================ LoopIR_Rewrite
class Base:
    def __init__(self, repo):
        self.src = IR_SRC
        path = os.path.join(repo, IR_SRC)
        self.tree = ast.parse(open(path).read(), path)
        self.cls = find_class(self.tree, "LoopIR_Rewrite", IR_SRC)
        if self.cls.bases or self.cls.decorator_list or self.cls.keywords:
            fail(self.src, self.cls, "LoopIR_Rewrite must be a plain class")
        self.ms = methods(self.cls)
        for nm in ("apply_proc", "map_proc", "map_stmts", "map_s", "_map_list"):
            if nm not in self.ms:
                raise Unsupported("%s: LoopIR_Rewrite.%s not found" % (self.src, nm))
        if "__getattr__" in self.ms or "__getattribute__" in self.ms or "__init_subclass__" in self.ms:
            raise Unsupported("%s: LoopIR_Rewrite defines attribute hooks" % self.src)
        # methods whose calls the translator drops must not reach the statement traversal
        for nm in ("map_e", "map_t", "map_exprs", "map_fnarg", "map_w_access"):
            if nm in self.ms:
                for n in ast.walk(self.ms[nm]):
                    if isinstance(n, ast.Attribute) and n.attr in ("map_s", "map_stmts", "apply_s", "apply_stmts",
                                                                   "map_proc", "apply_proc", "err"):
                        fail(self.src, n, "LoopIR_Rewrite.%s reaches the statement traversal" % nm)
        self.check_apply_proc()
        self.check_map_proc()
        self.check_map_stmts()
        self.check_map_list()

    def check_apply_proc(self):
        f = self.ms["apply_proc"]
        b = strip_doc(f.body)
        ok = (len(b) == 1 and isinstance(b[0], ast.Return) and isinstance(b[0].value, ast.BoolOp)
              and isinstance(b[0].value.op, ast.Or) and len(b[0].value.values) == 2)
        if ok:
            c, o = b[0].value.values
            ok = (isinstance(c, ast.Call) and is_self_attr(c.func, "map_proc") and len(c.args) == 1
                  and isinstance(c.args[0], ast.Name) and c.args[0].id == f.args.args[1].arg
                  and isinstance(o, ast.Name))
        if not ok:
            fail(self.src, f, "apply_proc must be `return self.map_proc(old) or old`")

    def check_map_proc(self):
        f = self.ms["map_proc"]
        pvar = f.args.args[1].arg
        found = 0
        for st in strip_doc(f.body):
            if (isinstance(st, ast.Assign) and isinstance(st.value, ast.Call)
                    and is_self_attr(st.value.func, "map_stmts")):
                a = st.value.args
                if not (len(a) == 1 and isinstance(a[0], ast.Attribute) and isinstance(a[0].value, ast.Name)
                        and a[0].value.id == pvar and a[0].attr == "body"):
                    fail(self.src, st, "map_proc must traverse p.body")
                found += 1
                continue
            if found == 0 and isinstance(st, (ast.Return, ast.Raise, ast.If, ast.For, ast.While, ast.Try)):
                fail(self.src, st, "control flow in map_proc before the traversal of p.body")
            for n in ast.walk(st):
                if isinstance(n, ast.Attribute) and n.attr in ("map_stmts", "map_s", "apply_s", "apply_stmts"):
                    fail(self.src, st, "traversal call in map_proc outside `x = self.map_stmts(p.body)`")
        if found != 1:
            fail(self.src, f, "map_proc must contain exactly one `x = self.map_stmts(p.body)`")

    def check_map_stmts(self):
        f = self.ms["map_stmts"]
        b = strip_doc(f.body)
        ok = (len(b) == 1 and isinstance(b[0], ast.Return) and isinstance(b[0].value, ast.Call)
              and is_self_attr(b[0].value.func, "_map_list") and len(b[0].value.args) == 2
              and is_self_attr(b[0].value.args[0], "map_s") and isinstance(b[0].value.args[1], ast.Name)
              and b[0].value.args[1].id == f.args.args[1].arg)
        if not ok:
            fail(self.src, f, "map_stmts must be `return self._map_list(self.map_s, stmts)`")

    def check_map_list(self):
        f = self.ms["_map_list"]
        if not (len(f.decorator_list) == 1 and isinstance(f.decorator_list[0], ast.Name)
                and f.decorator_list[0].id == "staticmethod"):
            fail(self.src, f, "_map_list must be a staticmethod")
        fn, nodes = [a.arg for a in f.args.args]
        loops = [st for st in strip_doc(f.body) if isinstance(st, (ast.For, ast.While))]
        if len(loops) != 1 or not isinstance(loops[0], ast.For):
            fail(self.src, f, "_map_list must contain exactly one for loop")
        lp = loops[0]
        if not (isinstance(lp.iter, ast.Name) and lp.iter.id == nodes and isinstance(lp.target, ast.Name)
                and not lp.orelse):
            fail(self.src, lp, "_map_list must iterate `for s in nodes:`")
        first = lp.body[0]
        if not (isinstance(first, ast.Assign) and isinstance(first.value, ast.Call)
                and isinstance(first.value.func, ast.Name) and first.value.func.id == fn
                and len(first.value.args) == 1 and isinstance(first.value.args[0], ast.Name)
                and first.value.args[0].id == lp.target.id):
            fail(self.src, first, "first statement of the loop must be `<v> = fn(s)`")
        for st in strip_doc(f.body):
            if st is lp:
                break
            if isinstance(st, (ast.Return, ast.Raise, ast.If, ast.Try)):
                fail(self.src, st, "control flow before the loop of _map_list")
        for n in ast.walk(lp):
            if isinstance(n, (ast.Break, ast.Continue, ast.Return, ast.Raise)):
                fail(self.src, n, "break/continue/return/raise inside the loop of _map_list")
            if n is not first.value and isinstance(n, ast.Call) and isinstance(n.func, ast.Name) and n.func.id == fn:
                fail(self.src, n, "fn applied more than once per node")

    # ---------------------------------------------------------------- map_s dispatch
    def translate_map_s(self):
        """-> (dict ctor -> list of attrs descended into, in order ; default 'raise'|'skip')"""
        f = self.ms["map_s"]
        svar = f.args.args[1].arg
        body = strip_doc(f.body)
        if not (len(body) >= 1 and isinstance(body[0], ast.If)):
            fail(self.src, f, "map_s must start with the isinstance dispatch")
        for st in body[1:]:
            if not (isinstance(st, ast.Return) and (st.value is None or (isinstance(st.value, ast.Constant)
                                                                       and st.value.value is None))):
                fail(self.src, st, "statement after the dispatch of map_s")
        table = {}
        default = "skip"
        node = body[0]
        while True:
            ks = self.isinstance_classes(node.test, svar)
            eff = self.branch(node.body, svar, ks)
            for k in ks:
                if k in table:
                    fail(self.src, node.test, "constructor %s tested twice" % k)
                table[k] = eff
            if len(node.orelse) == 1 and isinstance(node.orelse[0], ast.If):
                node = node.orelse[0]
                continue
            if node.orelse:
                if len(node.orelse) == 1 and isinstance(node.orelse[0], ast.Raise):
                    default = "raise"
                else:
                    for st in node.orelse:
                        if not (isinstance(st, ast.Return) or isinstance(st, ast.Pass)):
                            fail(self.src, st, "else branch of the dispatch")
                        effect_free(self.src, st)
            break
        return table, default

    def isinstance_classes(self, e, svar):
        if not (isinstance(e, ast.Call) and isinstance(e.func, ast.Name) and e.func.id == "isinstance"
                and len(e.args) == 2 and isinstance(e.args[0], ast.Name) and e.args[0].id == svar):
            fail(self.src, e, "dispatch test (expected isinstance(s, LoopIR.K | (..)))")
        c = e.args[1]
        elts = c.elts if isinstance(c, ast.Tuple) else [c]
        out = []
        for x in elts:
            if not (isinstance(x, ast.Attribute) and isinstance(x.value, ast.Name) and x.value.id == "LoopIR"):
                fail(self.src, x, "class expression")
            out.append(x.attr)
        return out

    def branch(self, stmts, svar, ks):
        """descents (attrs of s passed to self.map_stmts as top-level assignments, in order)"""
        descents = []
        for st in stmts:
            if (isinstance(st, ast.Assign) and isinstance(st.value, ast.Call)
                    and is_self_attr(st.value.func, "map_stmts")):
                a = st.value.args
                if not (len(a) == 1 and isinstance(a[0], ast.Attribute) and isinstance(a[0].value, ast.Name)
                        and a[0].value.id == svar and not st.value.keywords):
                    fail(self.src, st, "map_stmts must be applied to an attribute of the statement")
                descents.append(a[0].attr)
                continue
            if isinstance(st, (ast.Assign, ast.Return, ast.Expr, ast.Pass)):
                effect_free(self.src, st)
                if isinstance(st, ast.Return) and st is not stmts[-1]:
                    fail(self.src, st, "return before the end of a dispatch branch")
                continue
            if isinstance(st, ast.If):
                # `if any(..): return [s.update(..)]` : pure, and must come after every descent of the branch
                effect_free(self.src, st)
                idx = stmts.index(st)
                for later in stmts[idx + 1:]:
                    for n in ast.walk(later):
                        if isinstance(n, ast.Attribute) and n.attr == "map_stmts":
                            fail(self.src, later, "descent after a conditional return")
                continue
            fail(self.src, st, "statement in a dispatch branch")
        return descents


# ============================================================================ emission
MS = ("((fix go (l : list stmt) : eff := match l with [] => t_skip | x :: r => t_seq (pa_map_s chk x) (go r) end) "
      "%s)")


def emit(repo):
    pa = PA(repo)
    base = Base(repo)
    raise_if_errors = pa.translate_run()
    body = pa.translate_map_s()
    table, default = base.translate_map_s()

    # the inlined super().map_s(s)
    arms = []
    for py, (pat, attrs) in CTORS.items():
        if py in table:
            ds = table[py]
            for a in ds:
                if a not in attrs:
                    raise Unsupported("%s: LoopIR_Rewrite.map_s descends into %s.%s which is not a statement list "
                                      "of Core's syntax" % (IR_SRC, py, a))
            term = "t_skip"
            for a in reversed(ds):
                term = "(t_seq %s %s)" % (MS % attrs[a], term) if term != "t_skip" else MS % attrs[a]
            # unused binders -> _
            p = pat
            for a, v in attrs.items():
                if a not in ds:
                    p = p.replace(" " + v, " _", 1)
            arms.append("    | %s => %s" % (p, term))
        else:
            arms.append("    | %s => %s" % (pat.replace(" body", " _").replace(" orelse", " _"),
                                            "t_raise" if default == "raise" else "t_skip"))
    for k in table:
        if k not in CTORS and k not in IGNORED_CTORS:
            raise Unsupported("%s: LoopIR_Rewrite.map_s dispatches on LoopIR.%s, unknown to Core's syntax"
                              % (IR_SRC, k))
    sup = "(match s with\n" + "\n".join(arms) + "\n    end)"
    body = body.replace("SUPER", sup)

    out = []
    out.append("(* GENERATED by translator/py2coq_partraverse.py from\n     %s (class ParallelAnalysis)\n     %s "
               "(class LoopIR_Rewrite: apply_proc, map_proc, map_stmts, _map_list, map_s)\n   DO NOT EDIT. *)"
               % (PA_SRC, IR_SRC))
    out.append("From Coq Require Import List Bool.\nFrom Core Require Import Syntax.\n"
               "From Par Require Import TraverseLang.\nImport ListNotations.\n")
    out.append("(* ParallelAnalysis.map_s; `super().map_s(s)` = the LoopIR_Rewrite.map_s dispatch, whose\n"
               "   self.map_stmts(..) calls come back to this function through _map_list *)")
    out.append("Fixpoint pa_map_s (chk : stmt -> bool) (s : stmt) {struct s} : eff :=\n  %s.\n" % body)
    out.append("(* LoopIR_Rewrite.map_stmts = _map_list(self.map_s, stmts) *)")
    out.append("Definition pa_map_stmts (chk : stmt -> bool) : list stmt -> eff :=\n"
               "  fix go (l : list stmt) : eff := match l with [] => t_skip | x :: r => t_seq (pa_map_s chk x) (go r) "
               "end.\n")
    out.append("(* LoopIR_Rewrite.apply_proc -> map_proc -> self.map_stmts(p.body) *)")
    out.append("Definition pa_apply_proc (chk : stmt -> bool) (p : proc) : eff := pa_map_stmts chk (proc_body p).\n")
    out.append("(* ParallelAnalysis.run: true = returns normally (compilation goes on) *)")
    if raise_if_errors:
        out.append("Definition pa_run (chk : stmt -> bool) (p : proc) : bool :=\n"
                   "  let e := pa_apply_proc chk p in negb (e_abort e) && negb (has_errors e).\n")
    else:
        out.append("Definition pa_run (chk : stmt -> bool) (p : proc) : bool :=\n"
                   "  let e := pa_apply_proc chk p in negb (e_abort e).\n")
    out.append("(* the loops on which Check_ParallelizeLoop is invoked (in order) *)")
    out.append("Definition visited_with (chk : stmt -> bool) (p : proc) : list stmt := "
               "visited_of (e_log (pa_apply_proc chk p)).")
    out.append("Definition visited (p : proc) : list stmt := visited_with (fun _ => true) p.")
    return "\n".join(out) + "\n"


def main():
    repo = os.environ.get("EXO_REPO", "/repo")
    outp = None
    av = sys.argv[1:]
    while av:
        a = av.pop(0)
        if a == "--repo":
            repo = av.pop(0)
        elif a == "-o":
            outp = av.pop(0)
        else:
            print("usage: py2coq_partraverse.py [--repo DIR] [-o OUT.v]", file=sys.stderr)
            sys.exit(64)
    try:
        txt = emit(repo)
    except Unsupported as e:
        print("py2coq_partraverse: " + str(e), file=sys.stderr)
        sys.exit(2)
    if outp:
        with open(outp, "w") as f:
            f.write(txt)
    else:
        sys.stdout.write(txt)


if __name__ == "__main__":
    main()
