#!/venv/bin/python
"""Fail-closed translator: class PrintEnv of exo/core/LoopIR_pprint.py  ->  coq/Print/Gen_PrintEnv.v

Accepted grammar (anything else aborts with exit status 2 naming the construct and its line):

  class PrintEnv: decorated with @dataclass, exactly the fields
        env:   ... = field(default_factory=ChainMap)
        names: ... = field(default_factory=ChainMap)
      and the methods push(self) and get_name(self, nm).
  push:      return PrintEnv(<chain>.new_child() | <chain>, ...)         (two positional arguments)
  get_name:  a straight-line body over the local variables, made of
        if <v> := <chain>.get(<e>): return <v>          -> match truthy (cget ...) with Some v => (v, self) | None => ...
        <v> = <e>                                        -> let v := e in ...
        <v> += <int>                                     -> let v := v + n in ...
        while <e>: (<v> = <e> | <v> += <int>)+           -> while_fuel (loop_fuel self) test body state
        self.<field>[<e>] = <e>                          -> cset on maps[0]
        self.<field>.setdefault(<e>, <e>)                -> csetdefault
        return <v>                                       -> (v, self)
  expressions: local names, int literals, str(nm), <chain>.get(e, e), e in <chain>, f"{nm}_{<v>}"
  <chain> is self.env (keys: Sym) or self.names (keys: str).

The Gallina primitives (cget, cset, csetdefault, cnew_child, truthy, while_fuel, loop_fuel, fmt_suffix, py_str,
set_env, set_names, mkEnv) are those of coq/Print/Model.v.  coq/Print/Proofs_Tie.v proves the generated
functions equal to the hand-written model by computation, so every theorem about the model is a theorem about
what the source says now."""
import argparse
import ast
import os
import sys

FIELDS = {"env": ("pe_env", "sym_eqb", "set_env"), "names": ("pe_names", "String.eqb", "set_names")}


class Unsupported(Exception):
    pass


def bad(node, what):
    raise Unsupported("line %s: unsupported %s: %s" % (getattr(node, "lineno", "?"), what, ast.dump(node)[:160]))


def unparen(s):
    """drop the one outer pair of parentheses that expr() put around a compound term"""
    return s[1:-1] if s.startswith("(") and s.endswith(")") else s


def is_self_field(e):
    return (isinstance(e, ast.Attribute) and isinstance(e.value, ast.Name) and e.value.id == "self"
            and e.attr in FIELDS)


def chain(e):
    """(gallina term, key equality) of a ChainMap-valued expression"""
    if is_self_field(e):
        proj, eqb, _ = FIELDS[e.attr]
        return "(%s self)" % proj, eqb
    bad(e, "chain expression")


class GetName:
    def __init__(self, fn: ast.FunctionDef):
        self.fn = fn
        args = [a.arg for a in fn.args.args]
        if args != ["self", "nm"] or fn.args.vararg or fn.args.kwarg or fn.args.kwonlyargs or fn.args.defaults:
            bad(fn, "signature of get_name (expected (self, nm))")
        self.param = "nm"
        self.locals = set()
        last = fn.body[-1]
        if not (isinstance(last, ast.Return) and isinstance(last.value, ast.Name)):
            bad(last, "last statement of get_name (expected `return <name>`)")
        self.retvar = last.value.id

    # ---------------------------------------------------------------- expressions
    def expr(self, e):
        if isinstance(e, ast.Name):
            if e.id == self.param or e.id in self.locals:
                return e.id
            bad(e, "free name")
        if isinstance(e, ast.Constant) and isinstance(e.value, int) and not isinstance(e.value, bool) and e.value >= 0:
            return str(e.value)
        if isinstance(e, ast.Call):
            f = e.func
            if isinstance(f, ast.Name) and f.id == "str" and len(e.args) == 1 and not e.keywords:
                a = e.args[0]
                if isinstance(a, ast.Name) and a.id == self.param:
                    return "(py_str %s)" % self.param
                bad(e, "str() of something other than the symbol parameter")
            if isinstance(f, ast.Attribute) and f.attr == "get" and len(e.args) == 2 and not e.keywords:
                c, eqb = chain(f.value)
                return "(cget_default %s %s %s %s)" % (eqb, c, self.expr(e.args[0]), self.expr(e.args[1]))
            bad(e, "call")
        if isinstance(e, ast.Compare) and len(e.ops) == 1 and isinstance(e.ops[0], ast.In):
            c, eqb = chain(e.comparators[0])
            return "(cmem %s %s %s)" % (eqb, c, self.expr(e.left))
        if isinstance(e, ast.JoinedStr):
            v = e.values
            ok = (len(v) == 3 and isinstance(v[0], ast.FormattedValue) and isinstance(v[2], ast.FormattedValue)
                  and isinstance(v[1], ast.Constant) and v[1].value == "_"
                  and all(x.conversion == -1 and x.format_spec is None for x in (v[0], v[2]))
                  and isinstance(v[0].value, ast.Name) and v[0].value.id == self.param
                  and isinstance(v[2].value, ast.Name) and v[2].value.id in self.locals)
            if not ok:
                bad(e, "f-string (expected f\"{nm}_{<int variable>}\")")
            return "(fmt_suffix %s %s)" % (self.param, v[2].value.id)
        bad(e, "expression")

    # ---------------------------------------------------------------- statements
    def assigned(self, body):
        out = []
        for s in body:
            if isinstance(s, ast.Assign) and len(s.targets) == 1 and isinstance(s.targets[0], ast.Name):
                nm = s.targets[0].id
            elif isinstance(s, ast.AugAssign) and isinstance(s.target, ast.Name):
                nm = s.target.id
            else:
                bad(s, "statement in a while body")
            if nm not in out:
                out.append(nm)
        return out

    def simple(self, s, ind):
        """one `let` line for a local assignment"""
        if isinstance(s, ast.Assign) and len(s.targets) == 1 and isinstance(s.targets[0], ast.Name):
            rhs = self.expr(s.value)
            self.locals.add(s.targets[0].id)
            return "%slet %s := %s in" % (ind, s.targets[0].id, unparen(rhs))
        if isinstance(s, ast.AugAssign) and isinstance(s.target, ast.Name) and isinstance(s.op, ast.Add):
            if s.target.id not in self.locals:
                bad(s, "augmented assignment to an undefined variable")
            return "%slet %s := %s + %s in" % (ind, s.target.id, s.target.id, self.expr(s.value))
        return None

    def stmts(self, body, ind):
        if not body:
            raise Unsupported("get_name falls off its end without `return`")
        s, rest = body[0], body[1:]
        # if v := chain.get(k): return v
        if isinstance(s, ast.If):
            t = s.test
            if not (isinstance(t, ast.NamedExpr) and isinstance(t.target, ast.Name) and not s.orelse
                    and len(s.body) == 1 and isinstance(s.body[0], ast.Return)
                    and isinstance(s.body[0].value, ast.Name) and s.body[0].value.id == t.target.id
                    and isinstance(t.value, ast.Call) and isinstance(t.value.func, ast.Attribute)
                    and t.value.func.attr == "get" and len(t.value.args) == 1 and not t.value.keywords):
                bad(s, "if statement (expected `if v := chain.get(k): return v`)")
            c, eqb = chain(t.value.func.value)
            k = self.expr(t.value.args[0])
            v = t.target.id
            out = ["%smatch truthy (cget %s %s %s) with" % (ind, eqb, c, k),
                   "%s| Some %s => (%s, self)" % (ind, v, v),
                   "%s| None =>" % ind]
            out += self.stmts(rest, ind + "  ")
            out.append("%send" % ind)
            return out
        line = self.simple(s, ind)
        if line is not None:
            return [line] + self.stmts(rest, ind)
        if isinstance(s, ast.While):
            if s.orelse:
                bad(s, "while-else")
            vs = self.assigned(s.body)
            for v in vs:
                if v not in self.locals:
                    bad(s, "loop variable %r not initialised before the loop" % v)
            pat = "'(%s)" % ", ".join(vs) if len(vs) > 1 else vs[0]
            tup = "(%s)" % ", ".join(vs)
            test = self.expr(s.test)
            blines = []
            for b in s.body:
                blines.append(self.simple(b, ind + "           "))
            out = ["%smatch while_fuel (loop_fuel self)" % ind,
                   "%s        (fun %s => %s)" % (ind, pat, unparen(test)),
                   "%s        (fun %s =>" % (ind, pat)]
            out += blines
            out += ["%s           %s)" % (ind, tup),
                    "%s        %s with" % (ind, tup),
                    "%s| None => (%s, self)" % (ind, self.retvar),
                    "%s| Some %s =>" % (ind, tup)]
            out += self.stmts(rest, ind + "  ")
            out.append("%send" % ind)
            return out
        # self.field[k] = v
        if (isinstance(s, ast.Assign) and len(s.targets) == 1 and isinstance(s.targets[0], ast.Subscript)
                and is_self_field(s.targets[0].value)):
            proj, eqb, setter = FIELDS[s.targets[0].value.attr]
            k = self.expr(s.targets[0].slice)
            v = self.expr(s.value)
            line = "%slet self := %s self (cset %s (%s self) %s %s) in" % (ind, setter, eqb, proj, k, v)
            return [line] + self.stmts(rest, ind)
        # self.field.setdefault(k, v)
        if (isinstance(s, ast.Expr) and isinstance(s.value, ast.Call) and isinstance(s.value.func, ast.Attribute)
                and s.value.func.attr == "setdefault" and is_self_field(s.value.func.value)
                and len(s.value.args) == 2 and not s.value.keywords):
            proj, eqb, setter = FIELDS[s.value.func.value.attr]
            k = self.expr(s.value.args[0])
            v = self.expr(s.value.args[1])
            line = "%slet self := %s self (csetdefault %s (%s self) %s %s) in" % (ind, setter, eqb, proj, k, v)
            return [line] + self.stmts(rest, ind)
        if isinstance(s, ast.Return):
            if rest:
                bad(rest[0], "statement after return")
            if not (isinstance(s.value, ast.Name) and s.value.id in self.locals):
                bad(s, "return value")
            return ["%s(%s, self)" % (ind, s.value.id)]
        bad(s, "statement")

    def gallina(self):
        lines = ["Definition py_get_name (self : penv) (nm : sym) : string * penv :="]
        lines += self.stmts(self.fn.body, "  ")
        lines[-1] += "."
        return "\n".join(lines)


def push_gallina(fn: ast.FunctionDef):
    if [a.arg for a in fn.args.args] != ["self"]:
        bad(fn, "signature of push")
    body = [s for s in fn.body if not (isinstance(s, ast.Expr) and isinstance(s.value, ast.Constant))]
    if len(body) != 1 or not isinstance(body[0], ast.Return):
        bad(fn, "body of push (expected a single return)")
    c = body[0].value
    if not (isinstance(c, ast.Call) and isinstance(c.func, ast.Name) and c.func.id == "PrintEnv"
            and len(c.args) == 2 and not c.keywords):
        bad(c, "return value of push (expected PrintEnv(<env>, <names>))")
    parts = []
    for a, fld in zip(c.args, ("env", "names")):
        if (isinstance(a, ast.Call) and isinstance(a.func, ast.Attribute) and a.func.attr == "new_child"
                and not a.args and not a.keywords and is_self_field(a.func.value)):
            parts.append("(cnew_child (%s self))" % FIELDS[a.func.value.attr][0])
            src = a.func.value.attr
        elif is_self_field(a):
            parts.append("(%s self)" % FIELDS[a.attr][0])
            src = a.attr
        else:
            bad(a, "argument of PrintEnv(...) in push")
        if src != fld:
            bad(a, "push passes field %r in the position of %r" % (src, fld))
    return "Definition py_push (self : penv) : penv :=\n  mkEnv %s %s." % tuple(parts)


def check_fields(cls: ast.ClassDef):
    decos = [d.id if isinstance(d, ast.Name) else None for d in cls.decorator_list]
    if decos != ["dataclass"]:
        bad(cls, "decorators of PrintEnv (expected @dataclass)")
    seen = []
    for s in cls.body:
        if isinstance(s, ast.AnnAssign):
            if not (isinstance(s.target, ast.Name) and isinstance(s.value, ast.Call)
                    and isinstance(s.value.func, ast.Name) and s.value.func.id == "field"
                    and len(s.value.keywords) == 1 and s.value.keywords[0].arg == "default_factory"
                    and isinstance(s.value.keywords[0].value, ast.Name)
                    and s.value.keywords[0].value.id == "ChainMap" and not s.value.args):
                bad(s, "field of PrintEnv (expected `x: T = field(default_factory=ChainMap)`)")
            seen.append(s.target.id)
        elif isinstance(s, ast.FunctionDef):
            if s.decorator_list:
                bad(s, "decorated method")
        elif isinstance(s, ast.Expr) and isinstance(s.value, ast.Constant):
            pass
        else:
            bad(s, "class member")
    if seen != ["env", "names"]:
        raise Unsupported("fields of PrintEnv are %r, expected ['env', 'names']" % seen)
    meths = [s.name for s in cls.body if isinstance(s, ast.FunctionDef)]
    if sorted(meths) != ["get_name", "push"]:
        raise Unsupported("methods of PrintEnv are %r, expected push and get_name" % meths)


def main():
    ap = argparse.ArgumentParser()
    ap.add_argument("--repo", default=os.environ.get("EXO_REPO", "/repo"))
    ap.add_argument("-o", required=True)
    a = ap.parse_args()
    path = os.path.join(a.repo, "src", "exo", "core", "LoopIR_pprint.py")
    try:
        tree = ast.parse(open(path).read())
        cls = [n for n in tree.body if isinstance(n, ast.ClassDef) and n.name == "PrintEnv"]
        if len(cls) != 1:
            raise Unsupported("expected exactly one class PrintEnv in %s" % path)
        cls = cls[0]
        check_fields(cls)
        meth = {s.name: s for s in cls.body if isinstance(s, ast.FunctionDef)}
        push = push_gallina(meth["push"])
        gn = GetName(meth["get_name"]).gallina()
    except Unsupported as e:
        sys.stderr.write("py2coq_printenv: %s\n" % e)
        sys.exit(2)
    out = [
        "(* GENERATED by translator/py2coq_printenv.py from %s -- do not edit *)" % path,
        "From Coq Require Import String List Arith.",
        "From Print Require Import Model.",
        "Import ListNotations.",
        "Open Scope string_scope.",
        "",
        push,
        "",
        gn,
        "",
    ]
    text = "\n".join(out)
    # keep the time stamp when nothing changed, so that `make` does not re-check files that depend on it
    if not (os.path.exists(a.o) and open(a.o).read() == text):
        with open(a.o, "w") as f:
            f.write(text)


if __name__ == "__main__":
    main()
