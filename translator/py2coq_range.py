#!/venv/bin/python
"""py2coq_range.py — fail-closed Python-ast -> Gallina translator for the interval arithmetic of
``exo/rewrite/range_analysis.py`` (property C13).

    py2coq_range.py [--repo DIR] [-o OUT.v]

Translated (what the source SAYS, statement by statement):
    module helpers      zero, is_zero, binop
    IndexRange          create_unbounded, create_int, create_constant_range,
                        __add__ __radd__ __neg__ __sub__ __rsub__ __mul__ __rmul__ __floordiv__ __mod__ __or__
    IndexRangeEnvironment._check_range     (+ the class constants lt / leq / eq)
and, from the SET of dunder methods the class defines, Python's binary-operator protocol for operands of
run-time type  int | IndexRange | ValueError-object  (py_add, py_sub, py_mul, py_floordiv, py_mod, py_neg).

Supported grammar (anything else => exit 2 naming construct and line):
  statements   docstring | assert isinstance(x, T|(T,..)) | x = e | x, y = e1, e2 | return e
               | if/elif/else (nested)               -- conditionally assigned variables become parameters of a
                                                        local join point  `let k := fun v.. => <rest> in ...`
  conditions   `and`/`or`/`not` of:  p is None | p is not None | isinstance(p, int|IndexRange|LoopIR.Const)
               | any boolean expression             -- `is (not) None`/isinstance narrow the type of the path p
                                                        (self.lo : option Z  becomes a bound  self_lo : Z)
  expressions  int literals, None, names, p.lo p.hi p.base e.val(after isinstance) e.type e.srcinfo r[0] r[1]
               + - * // % unary- on ints, == != < <= > >= (chains), and/or/not, min/max,
               IndexRange(b,l,h), IndexRange.create_*(..), LoopIR.Const/BinOp/USub(..), zero(), is_zero(e),
               binop(op,a,b), ValueError(msg) (as a VALUE), LoopIR_Compare().match_e(a,b),
               self.__m__(x), and + - * // % | unary- with an IndexRange / dynamically typed operand
               (dispatched by Python's operator protocol on the methods present in the class).
  Every `//` and `%` on ints is preceded by the check `divisor == 0 -> ZeroDivisionError` at the evaluation
  site (Python raises; Coq's Z.div x 0 = 0 would hide it).
Typing is flow-sensitive and strict: using an Optional[int] as an int without a dominating `is not None`
test is rejected (fail closed), not totalised.
"""
import ast
import os
import sys

SRC = "src/exo/rewrite/range_analysis.py"


class Unsupported(Exception):
    pass


def fail(node, msg):
    try:
        txt = ast.unparse(node)
    except Exception:
        txt = "?"
    raise Unsupported("%s:%s: unsupported construct: %s: `%s`" % (SRC, getattr(node, "lineno", "?"), msg, txt[:100]))


# ----------------------------------------------------------------------------- types
# int optint bool expr range val(dynamic rval) none op(bop) cmpop unit pair(optint*optint) errv
COQTY = {"int": "Z", "optint": "option Z", "bool": "bool", "expr": "iexpr", "range": "irange", "val": "rval",
         "op": "bop", "cmpop": "cmpop", "unit": "unit", "pair": "bounds"}

OPSTR = {"+": "OAdd", "-": "OSub", "*": "OMul", "/": "ODiv", "%": "OMod"}
CMPSTR = {"<": "CLt", "<=": "CLeq", "==": "CEq"}

# signatures of the non-dunder functions (checked against the bodies; annotations in the source are
# `int` for parameters that callers also pass None to, hence the explicit table)
HELPERS = {
    "zero": ([], "expr"),
    "is_zero": (["expr"], "bool"),
    "binop": (["op", "expr", "expr"], "expr"),
    "create_unbounded": ([], "range"),
    "create_int": (["int"], "range"),
    "create_constant_range": (["optint", "optint"], "range"),
    "_check_range": (["pair", "cmpop", "pair"], "bool"),
}
MODULE_HELPERS = ["zero", "is_zero", "binop"]
STATIC_HELPERS = ["create_unbounded", "create_int", "create_constant_range"]
DUNDERS = ["__add__", "__radd__", "__neg__", "__sub__", "__rsub__", "__mul__", "__rmul__", "__floordiv__",
           "__mod__", "__or__"]
# dunder methods whose presence would change the operator protocol and that we do not translate
PROTOCOL_DUNDERS = {"__rfloordiv__", "__rmod__", "__truediv__", "__rtruediv__", "__pos__", "__ror__", "__iadd__",
                    "__isub__", "__imul__", "__ifloordiv__", "__imod__", "__ior__", "__eq__", "__bool__",
                    "__getattr__", "__getattribute__", "__post_init__", "__init__", "__new__", "__abs__",
                    "__invert__", "__index__", "__int__", "__lt__", "__le__", "__gt__", "__ge__", "__ne__",
                    "__hash__", "__pow__", "__rpow__", "__and__", "__rand__", "__xor__", "__rxor__"}
COQNAME = {"__add__": "ir_add", "__radd__": "ir_radd", "__neg__": "ir_neg", "__sub__": "ir_sub",
           "__rsub__": "ir_rsub", "__mul__": "ir_mul", "__rmul__": "ir_rmul", "__floordiv__": "ir_floordiv",
           "__mod__": "ir_mod", "__or__": "ir_or", "_check_range": "check_range"}
BINOP_METHOD = {ast.Add: "add", ast.Sub: "sub", ast.Mult: "mul", ast.FloorDiv: "floordiv", ast.Mod: "mod",
                ast.BitOr: "or"}
ZOP = {ast.Add: "+", ast.Sub: "-", ast.Mult: "*", ast.FloorDiv: "/", ast.Mod: "mod"}


def join_type(a, b, node):
    if a == b:
        return a
    s = {a, b}
    if s <= {"int", "optint", "none"}:
        return "optint"
    if s <= {"int", "range", "val", "errv"}:
        return "val"
    fail(node, "branches give a variable incompatible types %s / %s" % (a, b))


def coerce(term, ty, to, node):
    if ty == to:
        return term
    if to == "optint":
        if ty == "int":
            return "(Some %s)" % term
        if ty == "none":
            return "None"
    if to == "val":
        if ty == "int":
            return "(RInt %s)" % term
        if ty == "range":
            return "(RRange %s)" % term
        if ty == "errv":
            return "RErrV"
    fail(node, "a value of type %s is used where %s is required" % (ty, to))


class Ctx:
    """flow-sensitive environment: path -> (gallina term, type); tags: path -> set of possible rval tags"""

    def __init__(self, tr, env=None, tags=None):
        self.tr = tr
        self.env = dict(env or {})
        self.tags = dict(tags or {})

    def copy(self):
        return Ctx(self.tr, self.env, self.tags)

    def kill(self, var):
        for p in list(self.env):
            if p != var and (p.startswith(var + ".") or p.startswith(var + "[")):
                del self.env[p]
        self.tags.pop(var, None)


class Translator:
    def __init__(self, tree):
        self.tree = tree
        self.n = 0
        self.out = []
        self.methods = set()  # dunder methods present in class IndexRange
        self.cmpconst = {}  # IndexRangeEnvironment.<attr> -> cmpop constructor
        self.pure = True
        self.rettype = None
        self.defined = set()

    def fresh(self, base):
        self.n += 1
        return "%s%d" % (base, self.n)

    # ------------------------------------------------------------------ paths
    def path(self, node):
        if isinstance(node, ast.Name):
            return node.id
        if isinstance(node, ast.Attribute):
            p = self.path(node.value)
            return None if p is None else p + "." + node.attr
        if isinstance(node, ast.Subscript) and isinstance(node.slice, ast.Constant) and node.slice.value in (0, 1):
            p = self.path(node.value)
            return None if p is None else "%s[%d]" % (p, node.slice.value)
        return None

    # ------------------------------------------------------------------ effects (evaluation-order prelude)
    @staticmethod
    def wrap(effects, body):
        for eff in reversed(effects):
            if eff[0] == "guard":
                body = "if (%s =? 0) then Err EZeroDiv else %s" % (eff[1], body)
            else:
                _, name, m = eff
                if body == "Ok %s" % name:
                    body = m
                else:
                    body = "bind (%s) (fun %s => %s)" % (m, name, body)
        return body

    def need_impure(self, node, what):
        if self.pure:
            fail(node, "%s inside a helper that is translated as a pure function" % what)

    # ------------------------------------------------------------------ expressions
    def E(self, node, ctx, eff):
        """returns (gallina term, type); appends guards/binds to eff in evaluation order"""
        p = self.path(node)
        if p is not None and p in ctx.env:
            return ctx.env[p]
        if isinstance(node, ast.Constant):
            v = node.value
            if v is None:
                return "None", "none"
            if isinstance(v, bool):
                return ("true" if v else "false"), "bool"
            if isinstance(v, int):
                return ("%d" % v if v >= 0 else "(%d)" % v), "int"
            if isinstance(v, str):
                if v in OPSTR:
                    return OPSTR[v], "op"
                return "tt", "unit"
            fail(node, "literal")
        if isinstance(node, ast.Name):
            if node.id in ("T", "_null_srcinfo_obj"):
                return "tt", "unit"
            fail(node, "unknown or possibly unbound name")
        if isinstance(node, ast.Attribute):
            if isinstance(node.value, ast.Name) and node.value.id == "T":
                return "tt", "unit"
            if isinstance(node.value, ast.Name) and node.value.id == "IndexRangeEnvironment":
                if node.attr in self.cmpconst:
                    return self.cmpconst[node.attr], "cmpop"
                fail(node, "unknown class constant")
            t, ty = self.E(node.value, ctx, eff)
            if ty == "range" and node.attr in ("base", "lo", "hi"):
                return "(%s %s)" % (node.attr, t), {"base": "expr", "lo": "optint", "hi": "optint"}[node.attr]
            if ty == "expr" and node.attr in ("type", "srcinfo"):
                return "tt", "unit"
            fail(node, "attribute .%s of a value of type %s (not narrowed?)" % (node.attr, ty))
        if isinstance(node, ast.Subscript):
            if isinstance(node.slice, ast.Constant) and node.slice.value in (0, 1):
                t, ty = self.E(node.value, ctx, eff)
                if ty == "pair":
                    return "(%s %s)" % ("fst" if node.slice.value == 0 else "snd", t), "optint"
            fail(node, "subscript")
        if isinstance(node, ast.UnaryOp):
            if isinstance(node.op, ast.Not):
                t, ty = self.E(node.operand, ctx, eff)
                if ty != "bool":
                    fail(node, "`not` of a non-boolean (%s)" % ty)
                return "(negb %s)" % t, "bool"
            if isinstance(node.op, ast.USub):
                t, ty = self.E(node.operand, ctx, eff)
                return self.neg(node, t, ty, ctx, eff, self.path(node.operand))
            fail(node, "unary operator")
        if isinstance(node, ast.BinOp):
            if type(node.op) not in BINOP_METHOD:
                fail(node, "binary operator")
            lt, lty = self.E(node.left, ctx, eff)
            rt, rty = self.E(node.right, ctx, eff)
            return self.binop(node, node.op, lt, lty, rt, rty, ctx, eff,
                              self.path(node.left), self.path(node.right))
        if isinstance(node, ast.BoolOp):
            sub = []
            for v in node.values:
                e2 = []
                t, ty = self.E(v, ctx, e2)
                if e2:
                    fail(v, "operand of and/or that can raise (needs statement-level decomposition)")
                if ty != "bool":
                    fail(v, "and/or operand of type %s" % ty)
                sub.append(t)
            op = " && " if isinstance(node.op, ast.And) else " || "
            return "(" + op.join(sub) + ")", "bool"
        if isinstance(node, ast.Compare):
            return self.compare(node, ctx, eff)
        if isinstance(node, ast.Call):
            return self.call(node, ctx, eff)
        fail(node, "expression")

    def compare(self, node, ctx, eff):
        terms = [self.E(x, ctx, eff) for x in [node.left] + node.comparators]
        parts = []
        for i, op in enumerate(node.ops):
            (a, ta), (b, tb) = terms[i], terms[i + 1]
            if isinstance(op, (ast.Is, ast.IsNot)):
                if tb != "none":
                    fail(node, "`is` with something other than None")
                if ta == "optint":
                    r = "match %s with None => true | Some _ => false end" % a
                elif ta in ("expr", "range", "int"):
                    r = "false"  # a dataclass field that always holds an object: `x is None` is False
                elif ta == "none":
                    r = "true"
                else:
                    fail(node, "`is None` on type %s" % ta)
                parts.append("(%s)" % r if isinstance(op, ast.Is) else "(negb (%s))" % r)
                continue
            if ta == "int" and tb == "int":
                sym = {ast.Eq: "=?", ast.Lt: "<?", ast.LtE: "<=?", ast.Gt: ">?", ast.GtE: ">=?"}.get(type(op))
                if sym:
                    parts.append("(%s %s %s)" % (a, sym, b))
                elif isinstance(op, ast.NotEq):
                    parts.append("(negb (%s =? %s))" % (a, b))
                else:
                    fail(node, "comparison operator")
            elif ta == "cmpop" and tb == "cmpop" and isinstance(op, ast.Eq):
                parts.append("(cmpop_eqb %s %s)" % (a, b))
            elif ta == "op" and tb == "op" and isinstance(op, ast.Eq):
                parts.append("(bop_eqb %s %s)" % (a, b))
            else:
                fail(node, "comparison between %s and %s (Optional not narrowed?)" % (ta, tb))
        return ("(" + " && ".join(parts) + ")" if len(parts) > 1 else parts[0]), "bool"

    def call(self, node, ctx, eff):
        f = node.func
        if node.keywords:
            fail(node, "keyword arguments")
        args = node.args

        def targs(tys):
            if len(tys) != len(args):
                fail(node, "arity")
            out = []
            for a, ty in zip(args, tys):
                t, aty = self.E(a, ctx, eff)
                out.append(t if ty is None else coerce(t, aty, ty, a))
            return out

        def helper(name):
            if name not in self.defined:
                fail(node, "call of %s before/without its translated definition" % name)
            ptys, rty = HELPERS[name]
            ts = targs(ptys)
            return ("(%s %s)" % (COQNAME.get(name, name), " ".join(ts)) if ts else COQNAME.get(name, name)), rty

        if isinstance(f, ast.Name):
            if f.id in MODULE_HELPERS:
                return helper(f.id)
            if f.id == "IndexRange":
                ts = targs(["expr", "optint", "optint"])
                return "(mkrange %s %s %s)" % tuple(ts), "range"
            if f.id in ("min", "max"):
                ts = targs(["int", "int"])
                return "(Z.%s %s %s)" % (f.id, ts[0], ts[1]), "int"
            if f.id == "ValueError":
                return "RErrV", "errv"
            if f.id == "LoopIR_Compare" and not args:
                return "tt", "unit"
            fail(node, "call of unknown function")
        if isinstance(f, ast.Attribute) and isinstance(f.value, ast.Name):
            recv, m = f.value.id, f.attr
            if recv == "LoopIR":
                if m == "Const":
                    ts = targs(["int", None, None])
                    return "(IConst %s)" % ts[0], "expr"
                if m == "BinOp":
                    ts = targs(["op", "expr", "expr", None, None])
                    return "(IBin %s %s %s)" % (ts[0], ts[1], ts[2]), "expr"
                if m == "USub":
                    ts = targs(["expr", None, None])
                    return "(INeg %s)" % ts[0], "expr"
                fail(node, "LoopIR constructor")
            if recv == "IndexRange" and m in STATIC_HELPERS:
                return helper(m)
            if recv == "IndexRangeEnvironment" and m == "_check_range":
                return helper(m)
            if m == "match_e" and recv in ctx.env and ctx.env[recv][1] == "unit":
                ts = targs(["expr", "expr"])
                return "(match_e %s %s)" % (ts[0], ts[1]), "bool"
            if recv == "self" and m in DUNDERS:
                if m not in self.defined:
                    fail(node, "call of self.%s before its definition" % m)
                self.need_impure(node, "method call")
                st, sty = self.E(f.value, ctx, eff)
                ts = targs(["val"] * len(args))
                tmp = self.fresh("t")
                eff.append(("bind", tmp, "%s %s" % (COQNAME[m], " ".join([st] + ts))))
                return tmp, "val"
        fail(node, "call")

    # -- Python's operator protocol for operands of static type int | range | val | errv
    def tagset(self, ty, path, ctx):
        if ty == "int":
            return {"int"}
        if ty == "range":
            return {"range"}
        if ty == "errv":
            return {"errv"}
        if ty == "val":
            return set(ctx.tags.get(path, {"int", "range", "errv"})) if path else {"int", "range", "errv"}
        return None

    def neg(self, node, t, ty, ctx, eff, path):
        if ty == "int":
            return "(- %s)" % t, "int"
        tags = self.tagset(ty, path, ctx)
        if tags is None:
            fail(node, "unary minus on type %s" % ty)
        self.need_impure(node, "operator dispatch")
        tmp = self.fresh("t")
        eff.append(("bind", tmp, self.neg_dispatch(node, t, ty, tags)))
        return tmp, "val"

    def neg_case(self, node, tag, v):
        if tag == "int":
            return "Ok (RInt (- %s))" % v
        if tag == "range":
            if "__neg__" in self.methods:
                if "__neg__" not in self.defined:
                    fail(node, "use of unary minus on IndexRange before __neg__ is defined")
                return "ir_neg %s" % v
            return "Err ETypeError"
        return "Err ETypeError"

    def neg_dispatch(self, node, t, ty, tags):
        if ty == "range":
            return self.neg_case(node, "range", t)
        if ty == "errv":
            return "Err ETypeError"
        return ("match %s with RInt n_ => %s | RRange r_ => %s | RErrV => %s end"
                % (t, self.neg_case(node, "int", "n_") if "int" in tags else "Err EDead",
                   self.neg_case(node, "range", "r_") if "range" in tags else "Err EDead",
                   self.neg_case(node, "errv", None) if "errv" in tags else "Err EDead"))

    def bin_case(self, node, op, ltag, lv, rtag, rv, guard_out):
        """operands with KNOWN run-time tags; lv/rv are unboxed terms (None for errv)"""
        name = BINOP_METHOD[type(op)]
        box = {"int": lambda v: "(RInt %s)" % v, "range": lambda v: "(RRange %s)" % v, "errv": lambda v: "RErrV"}
        if ltag == "int" and rtag == "int":
            if name == "or":
                fail(node, "| on ints")
            z = "(%s %s %s)" % (lv, ZOP[type(op)], rv)
            if name in ("floordiv", "mod"):
                return "if (%s =? 0) then Err EZeroDiv else Ok (RInt %s)" % (rv, z)
            return "Ok (RInt %s)" % z
        if ltag == "range":
            m = "__%s__" % name
            if m in self.methods:
                if m not in self.defined:
                    fail(node, "operator uses IndexRange.%s before its definition" % m)
                return "%s %s %s" % (COQNAME[m], lv, box[rtag](rv))
            # fall through to the reflected method of the right operand
        if rtag == "range":
            m = "__r%s__" % name
            if m in self.methods:
                if m not in self.defined:
                    fail(node, "operator uses IndexRange.%s before its definition" % m)
                return "%s %s %s" % (COQNAME[m], rv, box[ltag](lv))
        return "Err ETypeError"

    def binop(self, node, op, lt, lty, rt, rty, ctx, eff, lpath=None, rpath=None):
        name = BINOP_METHOD[type(op)]
        if lty == "int" and rty == "int":
            if name == "or":
                fail(node, "| on ints")
            if name in ("floordiv", "mod"):
                self.need_impure(node, "integer division (can raise ZeroDivisionError)")
                if ("guard", rt) not in eff:
                    eff.append(("guard", rt))
            return "(%s %s %s)" % (lt, ZOP[type(op)], rt), "int"
        ltags, rtags = self.tagset(lty, lpath, ctx), self.tagset(rty, rpath, ctx)
        if ltags is None or rtags is None:
            fail(node, "operator %s between %s and %s (Optional not narrowed?)" % (name, lty, rty))
        self.need_impure(node, "operator dispatch")
        tmp = self.fresh("t")
        eff.append(("bind", tmp, self.bin_dispatch(node, op, lt, lty, ltags, rt, rty, rtags)))
        return tmp, "val"

    def bin_dispatch(self, node, op, lt, lty, ltags, rt, rty, rtags):
        order = ["int", "range", "errv"]
        pat = {"int": "RInt %s", "range": "RRange %s", "errv": "RErrV"}
        m = "__%s__" % BINOP_METHOD[type(op)]
        if lty == "range" and m in self.methods and rty in ("int", "range", "val", "errv"):
            # the left operand's class defines the method and it never returns NotImplemented
            if m not in self.defined:
                fail(node, "operator uses IndexRange.%s before its definition" % m)
            return "%s %s %s" % (COQNAME[m], lt, coerce(rt, rty, "val", node))

        def over(t, ty, tags, var, k):
            if ty != "val":
                return k(ty, t)
            arms = []
            for tag in order:
                p = pat[tag] % var if "%s" in pat[tag] else pat[tag]
                arms.append("%s => %s" % (p, k(tag, var) if tag in tags else "Err EDead"))
            return "match %s with %s end" % (t, " | ".join(arms))

        return over(lt, lty, ltags, "a_", lambda ltag, lv: "(" + over(
            rt, rty, rtags, "b_", lambda rtag, rv: self.bin_case(node, op, ltag, lv, rtag, rv, None)) + ")")

    # ------------------------------------------------------------------ conditions
    def C(self, node, ctx, then_k, else_k):
        """term for `if node: then else: else`; then_k/else_k: Ctx -> term (may be called once each here)"""
        if isinstance(node, ast.BoolOp):
            vals = node.values
            if isinstance(node.op, ast.And):
                jn = self.fresh("kelse")
                body = self.C_chain(vals, ctx, then_k, lambda c: "%s tt" % jn, True)
                return "let %s := fun _ : unit => %s in %s" % (jn, else_k(ctx.copy()), body)
            else:
                jn = self.fresh("kthen")
                body = self.C_chain(vals, ctx, lambda c: "%s tt" % jn, else_k, False)
                return "let %s := fun _ : unit => %s in %s" % (jn, then_k(ctx.copy()), body)
        if isinstance(node, ast.UnaryOp) and isinstance(node.op, ast.Not):
            return self.C(node.operand, ctx, else_k, then_k)
        if isinstance(node, ast.Compare) and len(node.ops) == 1 and isinstance(node.ops[0], (ast.Is, ast.IsNot)) \
                and isinstance(node.comparators[0], ast.Constant) and node.comparators[0].value is None:
            p = self.path(node.left)
            eff = []
            t, ty = self.E(node.left, ctx, eff)
            if eff:
                fail(node, "effectful operand of `is None`")
            if ty == "optint" and p is not None:
                nm = self.fresh(p.replace(".", "_").replace("[", "_").replace("]", "") + "_")
                c_some = ctx.copy()
                c_some.env[p] = (nm, "int")
                c_none = ctx.copy()
                some_k, none_k = (else_k, then_k) if isinstance(node.ops[0], ast.Is) else (then_k, else_k)
                return "match %s with Some %s => %s | None => %s end" % (t, nm, some_k(c_some), none_k(c_none))
            # fall through: plain boolean
        if isinstance(node, ast.Call) and isinstance(node.func, ast.Name) and node.func.id == "isinstance" \
                and len(node.args) == 2:
            return self.C_isinstance(node, ctx, then_k, else_k)
        eff = []
        t, ty = self.E(node, ctx, eff)
        if ty != "bool":
            fail(node, "condition of type %s" % ty)
        if eff:
            self.need_impure(node, "condition that can raise")
        return self.wrap(eff, "if %s then %s else %s" % (t, then_k(ctx.copy()), else_k(ctx.copy())))

    def C_chain(self, vals, ctx, then_k, else_k, is_and):
        if len(vals) == 1:
            return self.C(vals[0], ctx, then_k, else_k)
        if is_and:
            return self.C(vals[0], ctx, lambda c: self.C_chain(vals[1:], c, then_k, else_k, True), else_k)
        return self.C(vals[0], ctx, then_k, lambda c: self.C_chain(vals[1:], c, then_k, else_k, False))

    def C_isinstance(self, node, ctx, then_k, else_k):
        subj, cls = node.args
        p = self.path(subj)
        eff = []
        t, ty = self.E(subj, ctx, eff)
        if eff or p is None:
            fail(node, "isinstance of a compound expression")

        def clsname(c):
            if isinstance(c, ast.Name) and c.id in ("int", "IndexRange"):
                return {"int": "int", "IndexRange": "range"}[c.id]
            if isinstance(c, ast.Attribute) and isinstance(c.value, ast.Name) and c.value.id == "LoopIR" \
                    and c.attr == "Const":
                return "Const"
            fail(c, "isinstance class")

        classes = [clsname(c) for c in (cls.elts if isinstance(cls, ast.Tuple) else [cls])]
        if ty == "expr":
            if classes != ["Const"]:
                fail(node, "isinstance on an expression")
            nm = self.fresh(p.replace(".", "_") + "_val")
            c1 = ctx.copy()
            c1.env[p + ".val"] = (nm, "int")
            return "match %s with IConst %s => %s | _ => %s end" % (t, nm, then_k(c1), else_k(ctx.copy()))
        if ty in ("int", "range"):  # already narrowed
            return then_k(ctx.copy()) if ty in classes else else_k(ctx.copy())
        if ty != "val" or "Const" in classes:
            fail(node, "isinstance on a value of type %s" % ty)
        tags = set(ctx.tags.get(p, {"int", "range", "errv"}))
        pats = {"int": "RInt %s", "range": "RRange %s", "errv": "RErrV"}
        sfx = {"int": "_i", "range": "_r", "errv": ""}
        arms = []
        for side, k in ((tags & set(classes), then_k), (tags - set(classes), else_k)):
            if not side:
                continue
            c1 = ctx.copy()
            order = [t_ for t_ in ("int", "range", "errv") if t_ in side]
            if len(order) == 1:
                tag = order[0]
                if tag == "errv":
                    c1.tags[p] = {"errv"}
                    arms.append("RErrV => %s" % k(c1))
                else:
                    nm = self.fresh(p.replace(".", "_") + sfx[tag])
                    c1.env[p] = (nm, tag)  # fully narrowed: p now denotes the unboxed value
                    arms.append("%s => %s" % (pats[tag] % nm, k(c1)))
            else:
                c1.tags[p] = set(order)
                arms.append("%s => %s" % (" | ".join(pats[t_] % "_" if "%s" in pats[t_] else pats[t_]
                                                      for t_ in order), k(c1)))
        dead = [t_ for t_ in ("int", "range", "errv") if t_ not in tags]
        if dead:
            arms.append("%s => Err EDead" % " | ".join(pats[t_] % "_" if "%s" in pats[t_] else pats[t_]
                                                        for t_ in dead))
        return "match %s with %s end" % (t, " | ".join(arms))

    # ------------------------------------------------------------------ statements
    @staticmethod
    def terminates(stmts):
        if not stmts:
            return False
        s = stmts[-1]
        if isinstance(s, ast.Return):
            return True
        if isinstance(s, ast.If):
            return Translator.terminates(s.body) and Translator.terminates(s.orelse)
        return False

    @staticmethod
    def assigned(stmts):
        out = []
        for s in stmts:
            if isinstance(s, ast.Assign):
                for tg in s.targets:
                    for n in (tg.elts if isinstance(tg, ast.Tuple) else [tg]):
                        if isinstance(n, ast.Name) and n.id not in out:
                            out.append(n.id)
            elif isinstance(s, ast.If):
                for v in Translator.assigned(s.body) + Translator.assigned(s.orelse):
                    if v not in out:
                        out.append(v)
        return out

    def B(self, stmts, ctx, fall):
        if not stmts:
            return fall(ctx)
        s, rest = stmts[0], stmts[1:]
        if isinstance(s, ast.Expr) and isinstance(s.value, ast.Constant) and isinstance(s.value.value, str):
            return self.B(rest, ctx, fall)
        if isinstance(s, ast.Assert):
            t = s.test
            if not (isinstance(t, ast.Call) and isinstance(t.func, ast.Name) and t.func.id == "isinstance"):
                fail(s, "assert of something other than isinstance")
            self.need_impure(s, "assert")
            return self.C(t, ctx, lambda c: self.B(rest, c, fall), lambda c: "Err EAssert")
        if isinstance(s, ast.Assign):
            if len(s.targets) != 1:
                fail(s, "chained assignment")
            tg = s.targets[0]
            if isinstance(tg, ast.Tuple):
                if not (isinstance(s.value, ast.Tuple) and len(s.value.elts) == len(tg.elts)):
                    fail(s, "tuple assignment from a non-tuple")
                pairs = list(zip(tg.elts, s.value.elts))
                names = {n.id for n, _ in pairs if isinstance(n, ast.Name)}
                for _, v in pairs:
                    for sub in ast.walk(v):
                        if isinstance(sub, ast.Name) and sub.id in names:
                            fail(s, "tuple assignment whose right-hand side reads a target")
            else:
                pairs = [(tg, s.value)]
            c = ctx.copy()
            lets = []
            for n, v in pairs:
                if not isinstance(n, ast.Name):
                    fail(s, "assignment target")
                eff = []
                t, ty = self.E(v, c, eff)
                if ty == "none":
                    t, ty = "(None : option Z)", "optint"
                if n.id in c.env and c.env[n.id][1] != ty:
                    ty2 = join_type(c.env[n.id][1], ty, s)
                    t, ty = coerce(t, ty, ty2, s), ty2
                if ty == "errv":
                    t, ty = "RErrV", "val"
                c.kill(n.id)
                c.env[n.id] = (n.id, ty)
                lets.append((eff, "let %s : %s := %s in " % (n.id, COQTY[ty], t)))
            body = self.B(rest, c, fall)
            for eff, l in reversed(lets):
                body = self.wrap(eff, l + body)
            return body
        if isinstance(s, ast.Return):
            if rest:
                fail(rest[0], "statement after return")
            if s.value is None:
                fail(s, "return without a value")
            eff = []
            if self.pure and self.rettype == "bool":
                try:
                    t, ty = self.E(s.value, ctx, eff)
                except Unsupported:
                    n0 = self.n
                    return "(%s)" % self.C(s.value, ctx, lambda c: "true", lambda c: "false")
            else:
                t, ty = self.E(s.value, ctx, eff)
            if self.pure:
                if eff:
                    fail(s, "effect in pure helper")
                return coerce(t, ty, self.rettype, s)
            return self.wrap(eff, "Ok %s" % coerce(t, ty, "val", s))
        if isinstance(s, ast.If):
            tb, te = self.terminates(s.body), self.terminates(s.orelse)
            if tb and te:
                if rest:
                    fail(rest[0], "unreachable statement after if/else that always returns")
                return self.C(s.test, ctx, lambda c: self.B(s.body, c, None_fall(s)),
                              lambda c: self.B(s.orelse, c, None_fall(s)))
            if not rest:
                return self.C(s.test, ctx, lambda c: self.B(s.body, c, fall), lambda c: self.B(s.orelse, c, fall))
            # join point for the rest of the block
            live = {n_.id for r_ in rest for n_ in ast.walk(r_) if isinstance(n_, ast.Name)}
            vars_ = [v for v in self.assigned([s]) if v in live or v in ctx.env]
            seen = {}

            sites = [0]

            def probe(c):
                sites[0] += 1
                for v in vars_:
                    if v not in c.env:
                        fail(s, "variable %s may be unbound after this if" % v)
                    ty = c.env[v][1]
                    seen[v] = ty if v not in seen else join_type(seen[v], ty, s)
                return "PROBE"

            n0 = self.n
            self.C(s.test, ctx, lambda c: self.B(s.body, c, probe), lambda c: self.B(s.orelse, c, probe))
            self.n = n0
            if sites[0] <= 1:  # one way to reach the rest: translate it in place (keeps the narrowing facts)
                inline = lambda c: self.B(rest, c, fall)
                return self.C(s.test, ctx, lambda c: self.B(s.body, c, inline),
                              lambda c: self.B(s.orelse, c, inline))
            k = self.fresh("k")
            c_rest = ctx.copy()
            for v in vars_:
                c_rest.kill(v)
                c_rest.env[v] = (v, seen[v])
            rest_term = self.B(rest, c_rest, fall)
            params = " ".join("(%s : %s)" % (v, COQTY[seen[v]]) for v in vars_) or "(_ : unit)"

            def jump(c):
                if not vars_:
                    return "%s tt" % k
                return "%s %s" % (k, " ".join(coerce(c.env[v][0], c.env[v][1], seen[v], s) for v in vars_))

            br = self.C(s.test, ctx, lambda c: self.B(s.body, c, jump), lambda c: self.B(s.orelse, c, jump))
            return "let %s := fun %s => %s in\n    %s" % (k, params, rest_term, br)
        fail(s, "statement")

    # ------------------------------------------------------------------ functions
    def function(self, fn, kind):
        name = fn.name
        if fn.decorator_list and not (kind == "helper" and all(
                isinstance(d, ast.Name) and d.id == "staticmethod" for d in fn.decorator_list)):
            fail(fn, "decorator")
        a = fn.args
        if a.vararg or a.kwarg or a.kwonlyargs or a.defaults or a.posonlyargs:
            fail(fn, "parameter list")
        params = [x.arg for x in a.args]
        ctx = Ctx(self)
        binders = []
        if kind == "method":
            if not params or params[0] != "self":
                fail(fn, "method without self")
            self.pure, self.rettype = False, "val"
            ctx.env["self"] = ("self", "range")
            binders.append("(self : irange)")
            for p in params[1:]:
                ctx.env[p] = (p, "val")
                binders.append("(%s : rval)" % p)
            rty = "res rval"
        else:
            ptys, ret = HELPERS[name]
            if len(ptys) != len(params):
                fail(fn, "helper arity differs from the translator's signature table")
            self.pure, self.rettype = True, ret
            for p, ty in zip(params, ptys):
                ctx.env[p] = (p, ty)
                binders.append("(%s : %s)" % (p, COQTY[ty]))
            rty = COQTY[ret]
        body = self.B(fn.body, ctx, None_fall(fn))
        cname = COQNAME.get(name, name)
        self.out.append("(* %s:%d  %s *)\nDefinition %s %s : %s :=\n  %s.\n"
                        % (SRC, fn.lineno, name, cname, " ".join(binders), rty, body))
        self.defined.add(name)

    def protocol(self):
        """py_<op>: Python's operator protocol on run-time values int | IndexRange | ValueError object."""
        dummy = ast.parse("a + b").body[0].value
        all_tags = {"int", "range", "errv"}
        for opcls, name in BINOP_METHOD.items():
            if name == "or":
                continue
            node = ast.BinOp(left=dummy.left, op=opcls(), right=dummy.right)
            ast.fix_missing_locations(node)
            node.lineno = 0
            t = self.bin_dispatch(node, opcls(), "a", "val", all_tags, "b", "val", all_tags)
            self.out.append("(* Python: a %s b  for a, b : int | IndexRange | ValueError-object *)\n"
                            "Definition py_%s (a b : rval) : res rval :=\n  %s.\n"
                            % ({"add": "+", "sub": "-", "mul": "*", "floordiv": "//", "mod": "%"}[name], name, t))
        self.out.append("(* Python: -a *)\nDefinition py_neg (a : rval) : res rval :=\n  %s.\n"
                        % self.neg_dispatch(dummy, "a", "val", all_tags))

    def run(self):
        funcs = {n.name: n for n in self.tree.body if isinstance(n, ast.FunctionDef)}
        classes = {n.name: n for n in self.tree.body if isinstance(n, ast.ClassDef)}
        for h in MODULE_HELPERS:
            if h not in funcs:
                raise Unsupported("%s: module function %s not found" % (SRC, h))
        for c in ("IndexRange", "IndexRangeEnvironment"):
            if c not in classes:
                raise Unsupported("%s: class %s not found" % (SRC, c))
        ir = classes["IndexRange"]
        if ir.bases or ir.keywords:
            fail(ir, "IndexRange with base classes (inherited operators are outside the grammar)")
        if not (len(ir.decorator_list) == 1 and isinstance(ir.decorator_list[0], ast.Name)
                and ir.decorator_list[0].id == "dataclass"):
            fail(ir, "IndexRange is expected to be a plain @dataclass")
        fields = [(s.target.id, ast.unparse(s.annotation)) for s in ir.body if isinstance(s, ast.AnnAssign)
                  and isinstance(s.target, ast.Name)]
        if fields != [("base", "LoopIR.expr"), ("lo", "Optional[int]"), ("hi", "Optional[int]")]:
            fail(ir, "IndexRange fields changed: %r" % (fields,))
        meths = {n.name: n for n in ir.body if isinstance(n, ast.FunctionDef)}
        for m in meths:
            if m in PROTOCOL_DUNDERS or (m.startswith("__") and m.endswith("__") and m not in DUNDERS
                                         and m != "__str__"):
                fail(meths[m], "IndexRange defines %s, which changes the operator protocol" % m)
        self.methods = {m for m in DUNDERS if m in meths}
        env = classes["IndexRangeEnvironment"]
        for s in env.body:
            if isinstance(s, ast.Assign) and len(s.targets) == 1 and isinstance(s.targets[0], ast.Name) \
                    and isinstance(s.value, ast.Constant) and isinstance(s.value.value, str):
                if s.value.value not in CMPSTR:
                    fail(s, "comparison constant")
                self.cmpconst[s.targets[0].id] = CMPSTR[s.value.value]
        if set(self.cmpconst.values()) != set(CMPSTR.values()):
            fail(env, "IndexRangeEnvironment.lt/leq/eq constants changed: %r" % self.cmpconst)
        self.out.append("(* GENERATED by translator/py2coq_range.py from %s — do not edit *)\n"
                        "From Coq Require Import ZArith List Bool.\nFrom Range Require Import Model.\n"
                        "Open Scope Z_scope.\n" % SRC)
        for h in MODULE_HELPERS:
            self.function(funcs[h], "helper")
        for h in STATIC_HELPERS:
            if h not in meths:
                fail(ir, "IndexRange.%s not found" % h)
            self.function(meths[h], "helper")
        for n in ir.body:
            if isinstance(n, ast.FunctionDef) and n.name in DUNDERS:
                self.function(n, "method")
        missing = [m for m in DUNDERS if m not in self.defined]
        if missing:
            fail(ir, "IndexRange no longer defines %s" % missing)
        emeths = {n.name: n for n in env.body if isinstance(n, ast.FunctionDef)}
        if "_check_range" not in emeths:
            fail(env, "IndexRangeEnvironment._check_range not found")
        self.function(emeths["_check_range"], "helper")
        self.protocol()
        return "\n".join(self.out)


def None_fall(node):
    def f(ctx):
        fail(node, "control can fall off the end of the function (implicit `return None`)")
    return f


def main(argv):
    repo = os.environ.get("EXO_REPO", "/repo")
    out = None
    i = 1
    while i < len(argv):
        if argv[i] == "--repo":
            repo = argv[i + 1]
            i += 2
        elif argv[i] == "-o":
            out = argv[i + 1]
            i += 2
        else:
            print("usage: py2coq_range.py [--repo DIR] [-o OUT.v]", file=sys.stderr)
            return 2
    path = os.path.join(repo, SRC)
    try:
        tree = ast.parse(open(path).read(), filename=path)
        text = Translator(tree).run()
    except Unsupported as e:
        print("py2coq_range: FAIL-CLOSED: %s" % e, file=sys.stderr)
        return 2
    except (OSError, SyntaxError) as e:
        print("py2coq_range: cannot read/parse %s: %s" % (path, e), file=sys.stderr)
        return 2
    if out:
        tmp = out + ".tmp"
        with open(tmp, "w") as f:
            f.write(text)
        if os.path.exists(out) and open(out).read() == text:
            os.remove(tmp)  # unchanged: keep the timestamp so that make does not rebuild
        else:
            os.replace(tmp, out)
    else:
        sys.stdout.write(text)
    return 0


if __name__ == "__main__":
    sys.exit(main(sys.argv))
