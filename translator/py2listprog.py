#!/venv/bin/python
"""py2listprog.py -- fail-closed Python-ast -> ListProg translator (engine Purity, property C07).

For every function / method / nested closure / lambda of the given source files the translator extracts the
ListProg skeleton (coq/Purity/Model.v): statements that bind, read, copy, slice, concatenate, build or MUTATE
containers or object attributes, calls, returns, raises and the control structure.  Everything else is dropped.
The classification fresh / shared is NOT done here: it is the Coq analysis `may_mutate_shared` (proved sound in
Proofs_ListProg.v).  The translator only decides which ListProg statement a Python construct is, and it is
conservative: whatever it does not recognise as creating a new object is an unknown call whose result is shared.

WHITELIST (constructs translated as "creates a new object" = SAlloc, with the justification):
  W1  [..] {..} (..) comprehensions, generator expressions      -- language semantics: a new container
  W2  list() dict() set() tuple() frozenset() sorted() defaultdict() OrderedDict() deque() ChainMap() (no argument)
      and list(x) ... sorted(x)                                  -- builtins documented to return a new (shallow) copy
  W3  x.copy()                                                   -- list/dict/set/ChainMap.copy return a new shallow copy
  W4  x[i:j]                                                     -- list slicing copies; Block.__getitem__ builds a new cursor
  W5  a + b, a * n, a | b, a & b, a - b, a ^ b                   -- list/tuple/set/dict operators return new objects
  W6  C(...) for a class C defined in the translated files, `LoopIR.X(...)`, `T.X(...)`, `UAST.X(...)`, `PAST.X(...)`
      and the names in FRESH_CTORS                               -- object construction (its __init__, if translated, is called)
  W7  n.update(k=v, ...) with keyword arguments only             -- asdl_adt `update` is attrs.evolve: a new node
  W8  dataclasses.replace(c, ...)                                -- returns a new dataclass instance
  W9  self.F[k] where F is only ever assigned `defaultdict(set|list|dict)` and never stored into by subscript
      assignment in its class (checked on every run)             -- the values are created by the default factory
  W10 the parameters *args / **kwargs                            -- Python builds a new tuple / dict for every call
  SITE_WHITELIST below: four statements, each with a justification whose mechanical part is re-checked on every run
ALIAS-PRESERVING (result has the class of the receiver): x.new_child(), x.parents (ChainMap views onto the same
  maps), ChainMap(x, ...) (wraps x: writes go to x).
DENIED (exit != 0): exec/eval/globals/locals/vars/__setattr__/__setitem__/__delitem__/__iadd__ .../operator.* setters,
  `global` statements, match statements, async constructs, return inside try/finally.
Anything else that syntactically mutates (subscript/attribute assignment, del, augmented assignment, the mutator
method names in MUTATORS, setattr/delattr) becomes an SMut on the translated target.

usage: py2listprog.py --repo ROOT -o Gen_ListProgs.v [--files f1.py ...] [--prefix p_] [--report r.json]
"""
from __future__ import annotations

import argparse
import ast
import json
import os
import sys

DEFAULT_FILES = [
    "src/exo/rewrite/LoopIR_scheduling.py",
    "src/exo/core/internal_cursors.py",
    "src/exo/core/LoopIR.py",
    "src/exo/API_scheduling.py",   # argument processors: they are handed the caller's own lists
]

MUTATORS = {
    "append": "MAppend", "extend": "MExtend", "insert": "MInsert", "pop": "MPop", "remove": "MRemove",
    "sort": "MSort", "reverse": "MReverse", "clear": "MClear",
    # set / dict / deque mutators are mapped onto the list ones (the analysis only looks at the target)
    "add": "MAppend", "discard": "MRemove", "setdefault": "MSetItem", "popitem": "MPop", "appendleft": "MAppend",
    "extendleft": "MExtend", "popleft": "MPop", "rotate": "MReverse", "intersection_update": "MExtend",
    "difference_update": "MExtend", "symmetric_difference_update": "MExtend",
}
RETURNS_ELEMENT = {"pop", "popitem", "setdefault", "popleft"}
ALIAS_METHODS = {"new_child"}
ALIAS_ATTRS = {"parents"}
FRESH_COPY_BUILTINS = {"list", "tuple", "set", "frozenset", "dict", "sorted", "OrderedDict", "defaultdict", "deque"}
OPAQUE_BUILTINS = {
    "len", "isinstance", "issubclass", "str", "repr", "int", "float", "bool", "abs", "any", "all", "range", "print",
    "id", "hash", "type", "ord", "chr", "callable", "hasattr", "format", "round", "divmod", "pow", "is_pos_int",
}
DENY_CALLS = {"exec", "eval", "globals", "locals", "vars", "compile", "__import__"}
DENY_ATTRS = {"__setattr__", "__setitem__", "__delitem__", "__delattr__", "__iadd__", "__ior__", "__imul__",
              "__dict__", "setitem", "delitem", "iadd", "iconcat", "insort", "heappush", "heappop", "shuffle"}
ADT_NAMESPACES = {"LoopIR", "T", "UAST", "PAST"}
# constructors of classes defined outside the translated files (W6): each builds a new object
FRESH_CTORS = {
    "Sym": "prelude.Sym.__init__ only sets _nm/_id on the new object",
    "SchedulingError": "exception object", "InvalidCursorError": "exception object", "TypeError": "exception object",
    "ValueError": "exception object", "NotImplementedError": "exception object", "KeyError": "exception object",
    "IndexError": "exception object", "AssertionError": "exception object", "Exception": "exception object",
}


# SITE WHITELIST: (file, function, statement text as printed in the report) -> justification.  A listed statement is
# NOT translated as a mutation.  Each entry is re-validated by `validate_site` against the current source.
SITE_WHITELIST = {
    ("LoopIR_scheduling.py", "CheckFoldBuffer.update_access_window", "self.access_window_per_scope[...] BitOr= ... (element)"):
        "the elements of access_window_per_scope are None or IndexRange; IndexRange (range_analysis.py) defines __or__ and no "
        "__ior__, so `|=` builds a new IndexRange and re-binds the slot (the slot store itself IS translated); checked: "
        "class IndexRange has no __ior__",
    ("LoopIR_scheduling.py", "CheckFoldBuffer.update_access_window_within_s", "self.access_window_within_s BitOr= ..."):
        "access_window_within_s is None or an IndexRange (no __ior__): `|=` re-binds the field to a new IndexRange; checked: "
        "class IndexRange has no __ior__",
    ("API_scheduling.py", "AtomicSchedulingOp.__call__", "bargs[...] = ..."):
        "bargs is `bound_args.arguments`, the dict inside the BoundArguments object that inspect.Signature.bind has just "
        "created for this call (it holds the caller's values but is not the caller's object); checked: in this function "
        "bound_args is only assigned from self.sig.bind(...) and bargs only from bound_args.arguments",
    ("LoopIR.py", "Alpha_Rename.__init__", "self.node Add= ..."):
        "`self.node += ...` only runs in the else-branch of __init__, where self.node is the list literal assigned two lines "
        "above (the other branch assigns the result of apply_proc and never extends it); no other method assigns self.node; "
        "checked: the only assignments to self.node in the class are `self.node = []` and the one in the if-branch",
}


class Fail(Exception):
    pass


# ---------------------------------------------------------------------------------------------- scopes
class Scope:
    def __init__(self, tr, node, parent, cls, path, qual):
        self.tr, self.node, self.parent, self.cls, self.path, self.qual = tr, node, parent, cls, path, qual
        self.id = None
        self.children = []
        self.is_lambda = isinstance(node, ast.Lambda)
        a = node.args
        self.params = [x.arg for x in a.posonlyargs + a.args] + ([a.vararg.arg] if a.vararg else []) + \
                      [x.arg for x in a.kwonlyargs] + ([a.kwarg.arg] if a.kwarg else [])
        self.npos = len(a.posonlyargs) + len(a.args)
        self.self_name = None
        if cls is not None and not self.is_lambda and parent_is_class(node):
            decos = {deco_name(d) for d in node.decorator_list}
            if "staticmethod" not in decos and "classmethod" not in decos and self.params:
                self.self_name = self.params[0]
        self.nonlocals, self.globals_ = set(), set()
        self.bind_sites = {}          # name -> list of (stmt, end_lineno)
        self.bound = set(self.params)
        self.free = set()             # names bound in an enclosing function, used here or below
        self.locals = {}              # name -> index
        self.def_sites = {}           # name -> list of nested def / lambda nodes bound to it
        self.lineno = node.lineno
        self.loops_of = {}            # id(child node) -> list of enclosing loop stmts (within this scope)

    def local(self, name):
        if name not in self.locals:
            self.locals[name] = len(self.locals)
        return self.locals[name]

    def tmp(self):
        return self.local("$t%d" % len(self.locals))


def parent_is_class(node):
    return getattr(node, "_in_class", False)


def deco_name(d):
    if isinstance(d, ast.Call):
        d = d.func
    if isinstance(d, ast.Attribute):
        return d.attr
    if isinstance(d, ast.Name):
        return d.id
    return ""


class ClassInfo:
    def __init__(self, name, node, path):
        self.name, self.node, self.path = name, node, path
        self.bases = []
        for b in node.bases:
            if isinstance(b, ast.Name):
                self.bases.append(b.id)
            elif isinstance(b, ast.Attribute):
                self.bases.append(b.attr)
        self.methods = {}  # name -> [Scope]


# ---------------------------------------------------------------------------------------------- translator
class Translator:
    def __init__(self, repo, files):
        self.repo, self.files = repo, files
        self.scopes = []
        self.classes = {}          # name -> [ClassInfo]
        self.module_funcs = {}     # (path, name) -> [Scope]
        self.funcs_by_name = {}    # name -> [Scope]   (module level, all files)
        self.methods_by_name = {}  # name -> [Scope]
        self.imports = {}          # path -> {local name: imported name}
        self.attr_ids, self.cls_ids, self.glob_ids = {}, {}, {}
        self.comp = {}             # class name -> component representative
        self.stats = {"mutation_sites": 0, "alloc_sites": 0, "unknown_calls": 0, "known_calls": 0, "whitelist_hits": {},
                      "skipped_module_level_statements": 0}
        self.mut_sites = []
        self.site_hits = []
        self.field_access = {}     # (class name, attr) -> True when a method of that class mentions self.attr
        self.dd_fields = {}        # (class name, attr) -> defaultdict(<fresh factory>) field never subscript-assigned (W9)

    def validate_site(self, key):
        """mechanical part of the justification of a SITE_WHITELIST entry"""
        path, qual, text = key
        if "IndexRange" in SITE_WHITELIST[key]:
            p = os.path.join(self.repo, "src/exo/rewrite/range_analysis.py")
            try:
                tree = ast.parse(open(p).read())
            except OSError:
                return False
            for n in ast.walk(tree):
                if isinstance(n, ast.ClassDef) and n.name == "IndexRange":
                    return not any(isinstance(m, ast.FunctionDef) and m.name in ("__ior__",) for m in n.body)
            return False
        if qual == "AtomicSchedulingOp.__call__":
            for ci in self.classes.get("AtomicSchedulingOp", []):
                fn = ci.methods.get("__call__", [None])[0]
                if fn is None:
                    return False
                for n in ast.walk(fn.node):
                    if isinstance(n, ast.Assign):
                        for t in n.targets:
                            if isinstance(t, ast.Name) and t.id == "bound_args":
                                v = n.value
                                if not (isinstance(v, ast.Call) and ast.unparse(v.func) == "self.sig.bind"):
                                    return False
                            if isinstance(t, ast.Name) and t.id == "bargs":
                                if ast.unparse(n.value) != "bound_args.arguments":
                                    return False
                            if isinstance(t, (ast.Tuple, ast.List)) and any(
                                    isinstance(x, ast.Name) and x.id in ("bargs", "bound_args") for x in ast.walk(t)):
                                return False
                    if isinstance(n, (ast.AugAssign, ast.NamedExpr, ast.For, ast.With)) and any(
                            isinstance(x, ast.Name) and x.id in ("bargs", "bound_args") and isinstance(x.ctx, ast.Store)
                            for x in ast.walk(n)):
                        return False
                return True
            return False
        if qual == "Alpha_Rename.__init__":
            for ci in self.classes.get("Alpha_Rename", []):
                n_assign = 0
                for m in ast.walk(ci.node):
                    if isinstance(m, ast.Assign):
                        for t in m.targets:
                            if isinstance(t, ast.Attribute) and t.attr == "node" and isinstance(t.value, ast.Name) and t.value.id == "self":
                                n_assign += 1
                                if not (isinstance(m.value, ast.List) and not m.value.elts) and not (
                                        isinstance(m.value, ast.Call) and isinstance(m.value.func, ast.Attribute) and m.value.func.attr == "apply_proc"):
                                    return False
                init = ci.methods.get("__init__", [None])[0]
                if init is None or n_assign != 2:
                    return False
                # the `+=` statements must sit in the orelse of the `if isinstance(node, LoopIR.proc)` whose body assigns apply_proc
                for st in init.node.body:
                    if isinstance(st, ast.If):
                        in_body = any(isinstance(x, ast.AugAssign) for b in st.body for x in ast.walk(b))
                        if in_body:
                            return False
                return True
            return False
        return False

    # ---- ids
    def attr_id(self, a):
        return self.attr_ids.setdefault(a, len(self.attr_ids))

    def cls_id(self, c):
        return self.cls_ids.setdefault(c, len(self.cls_ids))

    def glob_id(self, key):
        return self.glob_ids.setdefault(key, len(self.glob_ids))

    def wl(self, tag):
        self.stats["whitelist_hits"][tag] = self.stats["whitelist_hits"].get(tag, 0) + 1

    # ---- pass 1: collect scopes
    def load(self):
        for rel in self.files:
            path = rel if os.path.isabs(rel) else os.path.join(self.repo, rel)
            src = open(path).read()
            tree = ast.parse(src, filename=path)
            short = os.path.basename(path)
            self.imports[short] = {}
            for st in tree.body:
                if isinstance(st, (ast.FunctionDef,)):
                    sc = self.collect_func(st, None, None, short, st.name)
                    self.module_funcs.setdefault((short, st.name), []).append(sc)
                    self.funcs_by_name.setdefault(st.name, []).append(sc)
                    if any(deco_name(d) == "extclass" for d in st.decorator_list):
                        self.methods_by_name.setdefault(st.name, []).append(sc)
                elif isinstance(st, ast.ClassDef):
                    self.collect_class(st, None, short, st.name)
                elif isinstance(st, (ast.AsyncFunctionDef,)):
                    raise Fail("%s:%d: async function" % (short, st.lineno))
                elif isinstance(st, (ast.Import, ast.ImportFrom)):
                    for al in st.names:
                        self.imports[short][al.asname or al.name.split(".")[0]] = al.name
                else:
                    self.stats["skipped_module_level_statements"] += 1
                    # lambdas / defs hidden in module level expressions are import-time code: not translated
        # class components (inheritance)
        names = list(self.classes)
        parent = {n: n for n in names}

        def find(x):
            while parent.setdefault(x, x) != x:
                parent[x] = parent[parent[x]]
                x = parent[x]
            return x

        for n in names:
            for ci in self.classes[n]:
                for b in ci.bases:
                    if b in ("ABC", "object", "Exception", "str", "Enum"):
                        continue
                    ra, rb = find(n), find(b)
                    if ra != rb:
                        parent[ra] = rb
        self.comp = {n: find(n) for n in list(parent)}
        for i, sc in enumerate(self.scopes):
            sc.id = i

    def collect_class(self, node, parent_scope, path, qual):
        ci = ClassInfo(node.name, node, path)
        self.classes.setdefault(node.name, []).append(ci)
        for st in node.body:
            if isinstance(st, ast.FunctionDef):
                st._in_class = True
                sc = self.collect_func(st, parent_scope, ci, path, qual + "." + st.name)
                ci.methods.setdefault(st.name, []).append(sc)
                self.methods_by_name.setdefault(st.name, []).append(sc)
            elif isinstance(st, ast.ClassDef):
                self.collect_class(st, parent_scope, path, qual + "." + st.name)
            elif isinstance(st, ast.AsyncFunctionDef):
                raise Fail("%s:%d: async function" % (path, st.lineno))
        return ci

    def collect_func(self, node, parent, cls, path, qual):
        sc = Scope(self, node, parent, cls if cls is not None else (parent.cls if parent else None), path, qual)
        if cls is None and parent is not None:
            sc.cls = parent.cls
        self.scopes.append(sc)
        if parent is not None:
            parent.children.append(sc)
        body = node.body if isinstance(node.body, list) else [node.body]
        self.scan(sc, body, [])
        for d in node.args.defaults + [k for k in node.args.kw_defaults if k is not None]:
            # defaults belong to the enclosing scope; lambdas inside them are rare: refuse
            for sub in ast.walk(d):
                if isinstance(sub, ast.Lambda):
                    raise Fail("%s:%d: lambda in a default argument" % (path, node.lineno))
        return sc

    def scan(self, sc, nodes, loops):
        """find bindings, nested scopes (recursively collected) inside `nodes` without entering nested scopes"""
        for n in nodes:
            self.scan_node(sc, n, loops, n if isinstance(n, ast.stmt) else None)

    def bind(self, sc, name, stmt):
        sc.bound.add(name)
        sc.bind_sites.setdefault(name, []).append(stmt)

    def bind_target(self, sc, t, stmt):
        if isinstance(t, ast.Name):
            self.bind(sc, t.id, stmt)
        elif isinstance(t, (ast.Tuple, ast.List)):
            for e in t.elts:
                self.bind_target(sc, e, stmt)
        elif isinstance(t, ast.Starred):
            self.bind_target(sc, t.value, stmt)

    def scan_node(self, sc, n, loops, stmt):
        path = sc.path
        if isinstance(n, ast.FunctionDef):
            self.bind(sc, n.name, n)
            child = self.collect_func(n, sc, None, path, sc.qual + "." + n.name)
            child.loops = list(loops)
            child.def_stmt = n
            sc.def_sites.setdefault(n.name, []).append(child)
            for d in n.decorator_list + n.args.defaults + [k for k in n.args.kw_defaults if k is not None]:
                self.scan_node(sc, d, loops, stmt)
            return
        if isinstance(n, ast.Lambda):
            child = self.collect_func(n, sc, None, path, sc.qual + ".<lambda@%d:%d>" % (n.lineno, n.col_offset))
            child.loops = list(loops)
            child.def_stmt = stmt
            n._scope = child
            return
        if isinstance(n, ast.ClassDef):
            self.bind(sc, n.name, n)
            self.collect_class(n, sc, path, sc.qual + "." + n.name)
            return
        if isinstance(n, (ast.AsyncFunctionDef, ast.AsyncFor, ast.AsyncWith, ast.Await)):
            raise Fail("%s:%d: async construct" % (path, n.lineno))
        if isinstance(n, ast.Match):
            raise Fail("%s:%d: match statement" % (path, n.lineno))
        if isinstance(n, ast.Global):
            raise Fail("%s:%d: global statement" % (path, n.lineno))
        if isinstance(n, ast.Nonlocal):
            sc.nonlocals.update(n.names)
            return
        if isinstance(n, (ast.Assign,)):
            for t in n.targets:
                self.bind_target(sc, t, n)
        elif isinstance(n, (ast.AnnAssign, ast.AugAssign)):
            self.bind_target(sc, n.target, n)
        elif isinstance(n, ast.For):
            self.bind_target(sc, n.target, n)
        elif isinstance(n, ast.With):
            for it in n.items:
                if it.optional_vars is not None:
                    self.bind_target(sc, it.optional_vars, n)
        elif isinstance(n, (ast.Import, ast.ImportFrom)):
            for al in n.names:
                self.bind(sc, al.asname or al.name.split(".")[0], n)
        elif isinstance(n, ast.ExceptHandler):
            if n.name:
                self.bind(sc, n.name, n)
        elif isinstance(n, ast.NamedExpr):
            self.bind_target(sc, n.target, stmt)
        elif isinstance(n, ast.Delete):
            for t in n.targets:
                self.bind_target(sc, t, n)
        elif isinstance(n, (ast.ListComp, ast.SetComp, ast.DictComp, ast.GeneratorExp)):
            # comprehension targets become uniquely renamed locals of the enclosing function
            for g in n.generators:
                for nm in ast.walk(g.target):
                    if isinstance(nm, ast.Name):
                        nm._comp_rename = "%s@%d:%d" % (nm.id, n.lineno, n.col_offset)
            n._renames = {}
            for g in n.generators:
                for nm in ast.walk(g.target):
                    if isinstance(nm, ast.Name):
                        n._renames[nm.id] = nm._comp_rename
        inner_loops = loops + [n] if isinstance(n, (ast.For, ast.While)) else loops
        for ch in ast.iter_child_nodes(n):
            self.scan_node(sc, ch, inner_loops, ch if isinstance(ch, ast.stmt) else stmt)

    # ---- fields: self.<attr> of class C and of an ancestor B are the same variable iff B (or a class between) uses it
    def ancestors(self, cname, seen=None):
        seen = seen if seen is not None else set()
        out = []
        for ci in self.classes.get(cname, []):
            for b in ci.bases:
                if b in self.classes and b not in seen:
                    seen.add(b)
                    out.append(b)
                    out += self.ancestors(b, seen)
        return out

    def scan_fields(self):
        for cname, cis in self.classes.items():
            for ci in cis:
                for n in ast.walk(ci.node):
                    if isinstance(n, ast.Attribute) and isinstance(n.value, ast.Name) and n.value.id in ("self",):
                        self.field_access[(cname, n.attr)] = True
        self._frep = {}
        parent = {}

        def find(x):
            while parent.setdefault(x, x) != x:
                parent[x] = parent[parent[x]]
                x = parent[x]
            return x

        for (cname, attr) in list(self.field_access):
            for b in self.ancestors(cname):
                if (b, attr) in self.field_access:
                    parent[find((cname, attr))] = find((b, attr))
        self._ffind = find
        # W9: self.F = defaultdict(set|list|dict) and F never stored into by subscript assignment / re-assigned otherwise
        cand = {}
        bad = set()
        for cname, cis in self.classes.items():
            for ci in cis:
                for n in ast.walk(ci.node):
                    if isinstance(n, ast.Assign):
                        for t in n.targets:
                            if isinstance(t, ast.Attribute) and isinstance(t.value, ast.Name) and t.value.id == "self":
                                v = n.value
                                ok = isinstance(v, ast.Call) and isinstance(v.func, ast.Name) and v.func.id == "defaultdict" and \
                                    len(v.args) == 1 and isinstance(v.args[0], ast.Name) and v.args[0].id in ("set", "list", "dict")
                                key = find((cname, t.attr))
                                if ok:
                                    cand[key] = True
                                else:
                                    bad.add(key)
                            if isinstance(t, ast.Subscript) and isinstance(t.value, ast.Attribute) and isinstance(t.value.value, ast.Name) \
                                    and t.value.value.id == "self":
                                bad.add(find((cname, t.value.attr)))
                    if isinstance(n, ast.AugAssign):
                        t = n.target
                        if isinstance(t, ast.Subscript) and isinstance(t.value, ast.Attribute) and isinstance(t.value.value, ast.Name) \
                                and t.value.value.id == "self":
                            bad.add(find((cname, t.value.attr)))
        self.dd_fields = {k for k in cand if k not in bad}

    def field_rep(self, cname, attr):
        r = self._ffind((cname, attr))
        return r[0]

    def is_dd_field(self, cname, attr):
        return self._ffind((cname, attr)) in self.dd_fields

    # ---- name resolution
    def owner_of(self, sc, name):
        """the function scope that binds `name` as seen from sc (None = module level / builtin)"""
        s = sc
        while s is not None:
            if name in s.bound and name not in s.nonlocals:
                return s
            s = s.parent
        return None

    def capture_mode(self, owner, name):
        """'local' (not captured), 'byvalue' or 'global' for variable `name` of scope `owner`"""
        key = (owner.id, name)
        if key in self._cap:
            return self._cap[key]
        capturing = [c for c in owner.children if name in c.free_all]
        if not capturing:
            mode = "local"
        else:
            mode = "byvalue"
            if any(name in d.nonlocals for d in self.descendants(owner)):
                mode = "global"
            for c in capturing:
                line = c.node.lineno
                for st in owner.bind_sites.get(name, []):
                    end = getattr(st, "end_lineno", st.lineno)
                    if isinstance(st, ast.FunctionDef) and st is c.node:
                        continue  # the def binds its own name (recursion): the binding is complete at the def
                    if end >= line and not (isinstance(st, ast.FunctionDef) and st.lineno < line):
                        mode = "global"
                for lp in getattr(c, "loops", []):
                    for st in owner.bind_sites.get(name, []):
                        if lp.lineno <= st.lineno <= getattr(lp, "end_lineno", lp.lineno):
                            mode = "global"
        self._cap[key] = mode
        return mode

    def descendants(self, sc):
        out = []
        for c in sc.children:
            out.append(c)
            out += self.descendants(c)
        return out

    def compute_free(self):
        self._cap = {}

        def names_used(sc):
            used = set()
            body = sc.node.body if isinstance(sc.node.body, list) else [sc.node.body]

            def walk(n):
                if isinstance(n, (ast.FunctionDef, ast.Lambda, ast.ClassDef)) and n is not sc.node:
                    if isinstance(n, ast.FunctionDef):
                        for d in n.decorator_list + n.args.defaults:
                            walk(d)
                    if isinstance(n, ast.ClassDef):  # methods of a nested class are scopes of their own
                        pass
                    return
                if isinstance(n, ast.Name):
                    used.add(getattr(n, "_comp_rename", n.id))
                for ch in ast.iter_child_nodes(n):
                    walk(ch)

            for b in body:
                walk(b)
            return used

        def rec(sc):
            free = set()
            for c in sc.children:
                rec(c)
                free |= {v for v in c.free_all if v not in sc.bound or v in sc.nonlocals}
            for v in names_used(sc):
                if "@" in v:
                    continue
                if (v not in sc.bound or v in sc.nonlocals) and sc.parent is not None and self.owner_of(sc.parent, v) is not None:
                    free.add(v)
            sc.free_all = {v for v in free if sc.parent is not None and self.owner_of(sc.parent, v) is not None}

        for sc in self.scopes:
            if sc.parent is None:
                rec(sc)
        for sc in self.scopes:
            if not hasattr(sc, "free_all"):
                sc.free_all = set()

    # ---- pass 2: translate
    def translate_all(self):
        self.compute_free()
        self.scan_fields()
        self.bodies = {}
        self.nparams = {}
        for sc in self.scopes:
            ft = FuncTranslator(self, sc)
            self.bodies[sc.id] = ft.run()
            self.nparams[sc.id] = [sc.locals[p] for p in sc.params]
        # call graph closure
        self.callees = {sc.id: sorted(set(collect_calls(self.bodies[sc.id]))) for sc in self.scopes}

    def scope_of(self, fid):
        seen, todo = {fid}, [fid]
        while todo:
            f = todo.pop()
            for g in self.callees[f]:
                if g not in seen:
                    seen.add(g)
                    todo.append(g)
        return sorted(seen)


def collect_calls(s):
    out = []

    def walk(t):
        if isinstance(t, tuple):
            if t and t[0] == "SCall":
                out.append(t[2])
            for x in t:
                walk(x)
        elif isinstance(t, list):
            for x in t:
                walk(x)

    walk(s)
    return out


# operands: None = not a container (opaque) ; ("U",) = unknown value that may be shared ; ("L", n) ; ("G", n)
U = ("U",)


class FuncTranslator:
    def __init__(self, tr: Translator, sc: Scope):
        self.tr, self.sc = tr, sc
        self.blocks = [[]]
        self.renames = [{}]
        self.in_try_finally = 0

    # ---- emission
    def emit(self, st):
        self.blocks[-1].append(st)

    def sub(self, fn):
        self.blocks.append([])
        fn()
        return seq(self.blocks.pop())

    def pos(self, n):
        return "%s:%d" % (self.sc.path, getattr(n, "lineno", 0))

    def fail(self, n, msg):
        raise Fail("%s: %s (in %s)" % (self.pos(n), msg, self.sc.qual))

    def var(self, op):
        """materialise an operand into a variable"""
        if op is None:
            t = ("L", self.sc.tmp())
            self.emit(("SOpq", t))
            return t
        if op == U:
            t = ("L", self.sc.tmp())
            self.emit(("SCallUnk", t, []))
            return t
        return op

    def elem(self, op):
        if op is None:
            return ("EO",)
        return ("EV", self.var(op))

    # ---- names
    def rename(self, name):
        for r in reversed(self.renames):
            if name in r:
                return r[name]
        return name

    def name_ref(self, name, node):
        """variable for a name (load or store)"""
        name = self.rename(name)
        sc = self.sc
        if "@" in name:  # comprehension variable: a local of this function
            return ("L", sc.local(name))
        if name in sc.bound and name not in sc.nonlocals:
            mode = self.tr.capture_mode(sc, name)
            if mode == "global":
                return ("G", self.tr.glob_id(("var", sc.id, name)))
            return ("L", sc.local(name))
        owner = self.tr.owner_of(sc.parent, name) if sc.parent is not None else None
        if owner is None:
            return None  # module level / builtin
        mode = self.tr.capture_mode(owner, name)
        if mode == "global":
            return ("G", self.tr.glob_id(("var", owner.id, name)))
        return ("G", self.tr.glob_id(("cap", sc.id, name)))

    def is_self(self, e):
        if not isinstance(e, ast.Name):
            return False
        name = self.rename(e.id)
        sc = self.sc
        owner = self.tr.owner_of(sc, name)
        return owner is not None and owner.self_name == name and owner.cls is not None

    def self_class(self, e):
        owner = self.tr.owner_of(self.sc, self.rename(e.id))
        return owner.cls

    def field(self, cls, attr):
        return ("G", self.tr.glob_id(("field", self.tr.field_rep(cls.name, attr), attr)))

    # ---- closures: capture by value at the definition point
    def define_closure(self, child, node):
        for v in sorted(child.free_all):
            owner = self.tr.owner_of(self.sc, v)
            if owner is None:
                continue
            if self.tr.capture_mode(owner, v) == "global":
                continue
            src = self.name_ref(v, node)
            self.emit(("SAssign", ("G", self.tr.glob_id(("cap", child.id, v))), self.var(src) if src is not None else self.var(U)))

    # ---- run
    def run(self):
        sc = self.sc
        for p in sc.params:
            sc.local(p)
        # W10: *args / **kwargs are a new tuple / dict built by the call itself
        a = sc.node.args
        for va in (a.vararg, a.kwarg):
            if va is not None:
                self.tr.wl("W10:*args/**kwargs")
                self.alloc(("L", sc.locals[va.arg]), ("ALit", []))
        # parameters captured in 'global' mode are copied into their global at entry
        for p in sc.params:
            if self.tr.capture_mode(sc, p) == "global":
                self.emit(("SAssign", ("G", self.tr.glob_id(("var", sc.id, p))), ("L", sc.locals[p])))
        node = sc.node
        if sc.is_lambda:
            r = self.expr(node.body)
            self.emit(("SReturn", self.elem(r)))
        else:
            self.stmts(node.body)
        return seq(self.blocks.pop())

    def stmts(self, body):
        for st in body:
            self.stmt(st)

    # ---- statements
    def stmt(self, st):
        t = type(st)
        if t is ast.Expr:
            self.expr(st.value)
        elif t is ast.Assign:
            self.assign(st)
        elif t is ast.AnnAssign:
            if st.value is not None:
                v = self.expr(st.value)
                self.store(st.target, v, st)
        elif t is ast.AugAssign:
            self.augassign(st)
        elif t is ast.Delete:
            for tg in st.targets:
                self.delete(tg, st)
        elif t is ast.Return:
            if self.in_try_finally:
                self.fail(st, "return inside try/finally")
            v = self.expr(st.value) if st.value is not None else None
            self.emit(("SReturn", self.elem(v)))
        elif t is ast.Raise:
            if st.exc is not None:
                self.expr(st.exc)
            if st.cause is not None:
                self.expr(st.cause)
            self.emit(("SRaise",))
        elif t is ast.Assert:
            self.expr(st.test)
            if st.msg is not None:
                self.expr(st.msg)
            self.emit(("SIf", ("SRaise",), ("SSkip",)))
        elif t is ast.If:
            self.expr(st.test)
            a = self.sub(lambda: self.stmts(st.body))
            b = self.sub(lambda: self.stmts(st.orelse))
            self.emit(("SIf", a, b))
        elif t is ast.For:
            it = self.expr(st.iter)

            def body():
                if it is None:
                    self.store(st.target, None, st)
                else:
                    x = ("L", self.sc.tmp())
                    self.emit(("SRead", x, ("RItem",), self.var(it)))
                    self.store(st.target, x, st)
                self.stmts(st.body)

            if it is not None:
                it = self.var(it)
            self.emit(("SLoop", self.sub(body)))
            self.stmts(st.orelse)
        elif t is ast.While:
            def body():
                self.expr(st.test)
                self.stmts(st.body)

            self.emit(("SLoop", self.sub(body)))
            self.expr(st.test)
            self.stmts(st.orelse)
        elif t in (ast.Break, ast.Continue):
            self.emit(("SBreak",))
        elif t is ast.Pass:
            pass
        elif t is ast.Try:
            self.try_(st)
        elif t is ast.With:
            for it in st.items:
                v = self.expr(it.context_expr)
                if it.optional_vars is not None:
                    self.store(it.optional_vars, U, st)
            self.stmts(st.body)
        elif t is ast.FunctionDef:
            for d in st.decorator_list + st.args.defaults + [k for k in st.args.kw_defaults if k is not None]:
                self.expr(d)
            child = [c for c in self.sc.children if c.node is st][0]
            self.define_closure(child, st)
            ref = self.name_ref(st.name, st)
            if ref is not None:
                self.emit(("SOpq", ref))  # a function object is not a container
        elif t is ast.ClassDef:
            pass  # methods are scopes of their own
        elif t in (ast.Import, ast.ImportFrom):
            for al in st.names:
                ref = self.name_ref(al.asname or al.name.split(".")[0], st)
                if ref is not None:
                    self.emit(("SCallUnk", ref, []))
        elif t is ast.Nonlocal:
            pass
        else:
            self.fail(st, "unsupported statement %s" % t.__name__)

    def try_(self, st):
        def body():
            self.stmts(st.body)
            self.stmts(st.orelse)

        def handlers():
            alts = []
            for h in st.handlers:
                def hb(h=h):
                    if h.type is not None:
                        self.expr(h.type)
                    if h.name:
                        ref = self.name_ref(h.name, h)
                        if ref is not None:
                            self.emit(("SCallUnk", ref, []))
                    self.stmts(h.body)

                alts.append(self.sub(hb))
            alts.append(("SRaise",))  # no handler matches: the exception propagates
            self.emit(choice(alts))

        if st.finalbody:
            self.in_try_finally += 1
        a = self.sub(body)
        if st.handlers:
            t = ("STry", a, self.sub(handlers))
        else:
            t = a
        if st.finalbody:
            self.in_try_finally -= 1
            fin = self.sub(lambda: self.stmts(st.finalbody))
            self.emit(("STry", t, ("SSeq", fin, ("SRaise",))))
            self.emit(self.sub(lambda: self.stmts(st.finalbody)))
        else:
            self.emit(t)

    def assign(self, st):
        val = st.value
        if len(st.targets) == 1 and isinstance(st.targets[0], (ast.Tuple, ast.List)) and isinstance(val, (ast.Tuple, ast.List)) \
                and len(val.elts) == len(st.targets[0].elts) \
                and not any(isinstance(e, ast.Starred) for e in val.elts + st.targets[0].elts):
            ops = []
            for e in val.elts:  # evaluate the whole right-hand side first
                o = self.expr(e)
                if o is not None and o != U:
                    tv = ("L", self.sc.tmp())
                    self.emit(("SAssign", tv, o))
                    o = tv
                ops.append(o)
            for tg, o in zip(st.targets[0].elts, ops):
                self.store(tg, o, st)
            return
        v = self.expr(val)
        if len(st.targets) > 1 and v is not None:
            v = self.var(v)
        for tg in st.targets:
            self.store(tg, v, st)

    def store(self, tg, op, st):
        t = type(tg)
        if t is ast.Name:
            ref = self.name_ref(tg.id, tg)
            if ref is None:
                self.fail(tg, "assignment to a module level name %s" % tg.id)
            if op is None:
                self.emit(("SOpq", ref))
            else:
                self.emit(("SAssign", ref, self.var(op)))
        elif t in (ast.Tuple, ast.List):
            src = self.var(op) if op is not None else None
            for e in tg.elts:
                if isinstance(e, ast.Starred):
                    if src is None:
                        self.store(e.value, None, st)
                    else:
                        x = ("L", self.sc.tmp())
                        self.emit(("SAlloc", x, ("ASlice", src)))
                        self.store(e.value, x, st)
                elif src is None:
                    self.store(e, None, st)
                else:
                    x = ("L", self.sc.tmp())
                    self.emit(("SRead", x, ("RItem",), src))
                    self.store(e, x, st)
        elif t is ast.Subscript:
            base = self.var(self.expr(tg.value))
            self.slice_effects(tg.slice)
            text = "%s[...] = ..." % src_of(tg.value)
            if not self.site_ok(st, text):
                self.mut(st, "MSetItem", base, self.elem(op), text)
        elif t is ast.Attribute:
            if self.is_self(tg.value):
                ref = self.field(self.self_class(tg.value), tg.attr)
                if op is None:
                    self.emit(("SOpq", ref))
                else:
                    self.emit(("SAssign", ref, self.var(op)))
            else:
                base = self.var(self.expr(tg.value))
                self.mut(st, ("MSetAttr", self.tr.attr_id(tg.attr)), base, self.elem(op), "%s.%s = ..." % (src_of(tg.value), tg.attr))
        elif t is ast.Starred:
            self.store(tg.value, op, st)
        else:
            self.fail(tg, "unsupported assignment target %s" % t.__name__)

    def site_ok(self, node, text):
        key = (self.sc.path, self.sc.qual, text)
        if key in SITE_WHITELIST and self.tr.validate_site(key):
            self.tr.site_hits.append({"file": key[0], "func": key[1], "text": key[2], "line": node.lineno, "why": SITE_WHITELIST[key]})
            return True
        return False

    def mut(self, node, kind, target, elem, text):
        self.tr.stats["mutation_sites"] += 1
        self.tr.mut_sites.append({"func": self.sc.id, "qual": self.sc.qual, "file": self.sc.path, "line": node.lineno, "text": text})
        self.emit(("SMut", node.lineno, kind, target, elem))

    def augassign(self, st):
        tg = st.target
        if isinstance(st.value, ast.Constant) and isinstance(st.value.value, (int, float, complex)) and not isinstance(st.value.value, bool):
            self.expr(tg) if not isinstance(tg, ast.Name) else None
            return  # x += 1 : a list operand would raise TypeError; numbers are immutable
        v = self.expr(st.value)
        if isinstance(tg, ast.Name):
            ref = self.name_ref(tg.id, tg)
            if ref is None:
                self.fail(tg, "augmented assignment to a module level name")
            self.mut(st, "MExtend", ref, self.elem(v), "%s %s= ..." % (tg.id, type(st.op).__name__))
            # for immutable operands the name is re-bound to `x op v`, a new object (W5)
            self.emit(("SIf", ("SSkip",), ("SAlloc", ref, ("ALit", [("EV", ref), self.elem(v)]))))
        elif isinstance(tg, ast.Attribute):
            if self.is_self(tg.value):
                ref = self.field(self.self_class(tg.value), tg.attr)
                text = "self.%s %s= ..." % (tg.attr, type(st.op).__name__)
                if not self.site_ok(st, text):
                    self.mut(st, "MExtend", ref, self.elem(v), text)
                self.emit(("SIf", ("SSkip",), ("SAlloc", ref, ("ALit", [("EV", ref), self.elem(v)]))))
            else:
                base = self.var(self.expr(tg.value))
                x = ("L", self.sc.tmp())
                self.emit(("SRead", x, ("RAttr", self.tr.attr_id(tg.attr)), base))
                self.mut(st, "MExtend", x, self.elem(v), "%s.%s %s= ..." % (src_of(tg.value), tg.attr, type(st.op).__name__))
                self.mut(st, ("MSetAttr", self.tr.attr_id(tg.attr)), base, self.elem(v), "%s.%s (re-bound)" % (src_of(tg.value), tg.attr))
        elif isinstance(tg, ast.Subscript):
            base = self.var(self.expr(tg.value))
            self.slice_effects(tg.slice)
            x = ("L", self.sc.tmp())
            self.emit(("SRead", x, ("RItem",), base))
            text = "%s[...] %s= ... (element)" % (src_of(tg.value), type(st.op).__name__)
            if not self.site_ok(st, text):
                self.mut(st, "MExtend", x, self.elem(v), text)
            self.mut(st, "MSetItem", base, self.elem(v), "%s[...] %s= ..." % (src_of(tg.value), type(st.op).__name__))
        else:
            self.fail(tg, "unsupported augmented assignment target")

    def delete(self, tg, st):
        if isinstance(tg, ast.Subscript):
            base = self.var(self.expr(tg.value))
            self.slice_effects(tg.slice)
            self.mut(st, "MDelItem", base, ("EO",), "del %s[...]" % src_of(tg.value))
        elif isinstance(tg, ast.Attribute):
            if self.is_self(tg.value):
                self.emit(("SOpq", self.field(self.self_class(tg.value), tg.attr)))
            else:
                base = self.var(self.expr(tg.value))
                self.mut(st, ("MSetAttr", self.tr.attr_id(tg.attr)), base, ("EO",), "del %s.%s" % (src_of(tg.value), tg.attr))
        elif isinstance(tg, ast.Name):
            ref = self.name_ref(tg.id, tg)
            if ref is None:
                self.fail(tg, "del of a module level name")
            self.emit(("SOpq", ref))
        elif isinstance(tg, (ast.Tuple, ast.List)):
            for e in tg.elts:
                self.delete(e, st)
        else:
            self.fail(tg, "unsupported del target")

    def slice_effects(self, s):
        if isinstance(s, ast.Slice):
            for p in (s.lower, s.upper, s.step):
                if p is not None:
                    self.expr(p)
        elif isinstance(s, ast.Tuple):
            for e in s.elts:
                self.slice_effects(e)
        else:
            self.expr(s)

    # ---- expressions
    def expr(self, e):
        t = type(e)
        if e is None or t is ast.Constant:
            return None
        if t is ast.Name:
            if e.id in DENY_CALLS:
                self.fail(e, "use of %s" % e.id)
            ref = self.name_ref(e.id, e)
            return U if ref is None else ref
        if t is ast.Attribute:
            if e.attr in DENY_ATTRS:
                self.fail(e, "use of attribute %s" % e.attr)
            if self.is_self(e.value):
                return self.field(self.self_class(e.value), e.attr)
            base = self.expr(e.value)
            if e.attr in ALIAS_ATTRS:
                self.tr.wl("alias:." + e.attr)
                return base
            if base is None or base == U:
                return U
            x = ("L", self.sc.tmp())
            self.emit(("SRead", x, ("RAttr", self.tr.attr_id(e.attr)), base))
            return x
        if t is ast.Subscript:
            if isinstance(e.value, ast.Attribute) and self.is_self(e.value.value) and not isinstance(e.slice, ast.Slice) \
                    and self.tr.is_dd_field(self.self_class(e.value.value).name, e.value.attr):
                # W9: a value of a defaultdict(set|list|dict) field that is only ever filled by its default factory
                self.slice_effects(e.slice)
                self.tr.wl("W9:defaultdict-value")
                x = ("L", self.sc.tmp())
                self.alloc(x, ("ALit", []))
                return x
            base = self.expr(e.value)
            self.slice_effects(e.slice)
            if base is None:
                return None
            base = self.var(base)
            x = ("L", self.sc.tmp())
            if isinstance(e.slice, ast.Slice):
                self.tr.wl("W4:slice")
                self.alloc(x, ("ASlice", base))
            else:
                self.emit(("SRead", x, ("RItem",), base))
            return x
        if t is ast.Call:
            return self.call(e)
        if t in (ast.List, ast.Tuple, ast.Set):
            els = [self.elem(self.expr(x.value if isinstance(x, ast.Starred) else x)) for x in e.elts]
            if t is ast.Tuple and all(x == ("EO",) for x in els):
                return None
            x = ("L", self.sc.tmp())
            self.tr.wl("W1:display")
            self.alloc(x, ("ALit", els))
            return x
        if t is ast.Dict:
            els = []
            for k, v in zip(e.keys, e.values):
                if k is not None:
                    els.append(self.elem(self.expr(k)))
                els.append(self.elem(self.expr(v)))
            x = ("L", self.sc.tmp())
            self.tr.wl("W1:display")
            self.alloc(x, ("ALit", els))
            return x
        if t is ast.BinOp:
            l = self.expr(e.left)
            r = self.expr(e.right)
            if l is None and r is None:
                return None
            if isinstance(e.op, ast.Mod) and isinstance(e.left, (ast.Constant, ast.JoinedStr)):
                return None  # string formatting
            x = ("L", self.sc.tmp())
            self.tr.wl("W5:binop")
            if isinstance(e.op, ast.Add) and l is not None and r is not None:
                self.alloc(x, ("AConcat", self.var(l), self.var(r)))
            else:
                self.alloc(x, ("ALit", [self.elem(l), self.elem(r)]))
            return x
        if t is ast.BoolOp:
            first = self.expr(e.values[0])
            x = ("L", self.sc.tmp())
            self.emit(("SAssign", x, self.var(first)) if first is not None else ("SOpq", x))
            for v in e.values[1:]:
                def alt(v=v):
                    o = self.expr(v)
                    self.emit(("SAssign", x, self.var(o)) if o is not None else ("SOpq", x))

                self.emit(("SIf", self.sub(alt), ("SSkip",)))
            return x
        if t is ast.IfExp:
            self.expr(e.test)
            x = ("L", self.sc.tmp())

            def br(v):
                def f():
                    o = self.expr(v)
                    self.emit(("SAssign", x, self.var(o)) if o is not None else ("SOpq", x))
                return f

            self.emit(("SIf", self.sub(br(e.body)), self.sub(br(e.orelse))))
            return x
        if t is ast.UnaryOp:
            self.expr(e.operand)
            return None
        if t is ast.Compare:
            self.expr(e.left)
            for c in e.comparators:
                self.expr(c)
            return None
        if t is ast.Lambda:
            child = e._scope
            self.define_closure(child, e)
            return None
        if t is ast.NamedExpr:
            v = self.expr(e.value)
            self.store(e.target, v, e)
            return self.expr(e.target)
        if t in (ast.ListComp, ast.SetComp, ast.GeneratorExp, ast.DictComp):
            return self.comprehension(e)
        if t is ast.JoinedStr:
            for v in e.values:
                if isinstance(v, ast.FormattedValue):
                    self.expr(v.value)
            return None
        if t is ast.FormattedValue:
            self.expr(e.value)
            return None
        if t is ast.Starred:
            return self.expr(e.value)
        if t in (ast.Yield, ast.YieldFrom):
            if e.value is not None:
                self.expr(e.value)
            return U
        if t is ast.Slice:
            self.slice_effects(e)
            return None
        self.fail(e, "unsupported expression %s" % t.__name__)

    def alloc(self, x, kind):
        self.tr.stats["alloc_sites"] += 1
        self.emit(("SAlloc", x, kind))

    def comprehension(self, e):
        res = ("L", self.sc.tmp())
        self.tr.wl("W1:comprehension")
        self.alloc(res, ("ALit", []))
        self.renames.append(dict(e._renames))

        def gen(i):
            if i == len(e.generators):
                if isinstance(e, ast.DictComp):
                    self.expr(e.key)
                    v = self.expr(e.value)
                else:
                    v = self.expr(e.elt)
                self.emit(("SMut", e.lineno, "MAppend", res, self.elem(v)))
                return
            g = e.generators[i]
            # the first iterable is evaluated in the enclosing scope (no renaming needed: names differ anyway)
            it = self.expr(g.iter)
            itv = self.var(it) if it is not None else None

            def body():
                if itv is None:
                    self.store(g.target, None, e)
                else:
                    x = ("L", self.sc.tmp())
                    self.emit(("SRead", x, ("RItem",), itv))
                    self.store(g.target, x, e)
                for c in g.ifs:
                    self.expr(c)
                gen(i + 1)

            self.emit(("SLoop", self.sub(body)))

        gen(0)
        self.renames.pop()
        return res

    # ---- calls
    def args_of(self, e):
        """evaluate the arguments left to right; returns (positional operands, {keyword: operand}, all operands)"""
        pos, kw, allv = [], {}, []
        for a in e.args:
            o = self.expr(a.value if isinstance(a, ast.Starred) else a)
            pos.append(o)
            allv.append(o)
        for k in e.keywords:
            o = self.expr(k.value)
            if k.arg is not None:
                kw[k.arg] = o
            allv.append(o)
        return pos, kw, allv

    def known_call(self, cands, pos, kw, recv=None):
        """SCall to each candidate (nondeterministic choice); returns the result variable"""
        res = ("L", self.sc.tmp())
        alts = []
        for c in cands:
            params = list(c.params)
            ops = list(pos)
            if recv is not None and c.self_name is not None:
                ops = [recv] + ops
            elif recv is not None and c.cls is None and params and any(deco_name(d) == "extclass" for d in getattr(c.node, "decorator_list", [])):
                ops = [recv] + ops
            argv = []
            for i, p in enumerate(params):
                if i < len(ops) and i < c.npos:
                    argv.append(ops[i])
                elif p in kw:
                    argv.append(kw[p])
                else:
                    argv.append(None)

            def mk(argv=argv, c=c):
                vs = [self.var(o) for o in argv]
                self.emit(("SCall", res, c.id, vs))

            alts.append(self.sub(mk))
            self.tr.stats["known_calls"] += 1
        self.emit(choice(alts))
        return res

    def unknown_call(self, ops):
        self.tr.stats["unknown_calls"] += 1
        res = ("L", self.sc.tmp())
        self.emit(("SCallUnk", res, [self.var(o) for o in ops if o is not None]))
        return res

    def construct(self, cname, pos, kw, node):
        """W6: a new object; the translated __init__ (if any) runs on the arguments"""
        self.tr.wl("W6:constructor")
        x = ("L", self.sc.tmp())
        fs = [(self.tr.attr_id("#%d" % i), self.elem(o)) for i, o in enumerate(pos)] + \
             [(self.tr.attr_id(k), self.elem(o)) for k, o in kw.items()]
        self.alloc(x, ("ANode", self.tr.cls_id(cname), fs))
        inits = []
        for ci in self.tr.classes.get(cname, []):
            inits += self.find_method(ci, "__init__")
        if inits:
            self.known_call(inits, pos, kw, recv=x)
        return x

    def find_method(self, ci, m, seen=None):
        """methods named m reachable from class ci through its (translated) bases"""
        seen = seen or set()
        if ci.name in seen:
            return []
        seen.add(ci.name)
        if m in ci.methods:
            return list(ci.methods[m])
        out = []
        for b in ci.bases:
            for bi in self.tr.classes.get(b, []):
                out += self.find_method(bi, m, seen)
        return out

    def component_methods(self, cls, m):
        comp = self.tr.comp.get(cls.name, cls.name)
        out = []
        for nm, cis in self.tr.classes.items():
            if self.tr.comp.get(nm, nm) == comp:
                for ci in cis:
                    out += ci.methods.get(m, [])
        return out

    def call(self, e):
        f = e.func
        if isinstance(f, ast.Name):
            return self.call_name(e, f)
        if isinstance(f, ast.Attribute):
            return self.call_attr(e, f)
        fo = self.expr(f)
        pos, kw, allv = self.args_of(e)
        return self.unknown_call([fo] + allv)

    def call_name(self, e, f):
        name = f.id
        if name in DENY_CALLS:
            self.fail(e, "call of %s" % name)
        sc = self.sc
        rname = self.rename(name)
        owner = self.tr.owner_of(sc, rname)
        if owner is not None:
            # a local / captured variable holding a function
            defs = owner.def_sites.get(rname, [])
            sites = owner.bind_sites.get(rname, [])
            lam = None
            if not defs and len(sites) == 1 and isinstance(sites[0], ast.Assign) and isinstance(sites[0].value, ast.Lambda) \
                    and len(sites[0].targets) == 1 and isinstance(sites[0].targets[0], ast.Name):
                lam = sites[0].value._scope
            pos, kw, allv = self.args_of(e)
            if defs and len(sites) == len(defs):
                return self.known_call(defs, pos, kw)
            if lam is not None:
                return self.known_call([lam], pos, kw)
            fo = self.expr(f)
            return self.unknown_call([fo] + allv)  # callback
        if name == "super":
            return U
        if name in ("setattr", "delattr"):
            pos, kw, allv = self.args_of(e)
            if not pos:
                self.fail(e, "setattr without arguments")
            attr = e.args[1].value if len(e.args) > 1 and isinstance(e.args[1], ast.Constant) else "?"
            self.mut(e, ("MSetAttr", self.tr.attr_id(str(attr))), self.var(pos[0]), self.elem(pos[2] if len(pos) > 2 else None),
                     "%s(%s, ...)" % (name, src_of(e.args[0])))
            return None
        if name == "getattr":
            pos, kw, allv = self.args_of(e)
            if pos and pos[0] is not None:
                attr = e.args[1].value if len(e.args) > 1 and isinstance(e.args[1], ast.Constant) else "?"
                x = ("L", self.sc.tmp())
                self.emit(("SRead", x, ("RAttr", self.tr.attr_id(str(attr))), self.var(pos[0])))
                return x
            return U
        if name == "ChainMap":
            pos, kw, allv = self.args_of(e)
            if pos:
                self.tr.wl("alias:ChainMap(x)")
                return pos[0]
            x = ("L", self.sc.tmp())
            self.tr.wl("W2:fresh-builtin")
            self.alloc(x, ("ALit", []))
            return x
        if name in FRESH_COPY_BUILTINS:
            pos, kw, allv = self.args_of(e)
            x = ("L", self.sc.tmp())
            self.tr.wl("W2:fresh-builtin")
            if pos and pos[0] is not None:
                self.alloc(x, ("ACopy", self.var(pos[0])))
            else:
                self.alloc(x, ("ALit", [self.elem(o) for o in allv]))
            return x
        if name in OPAQUE_BUILTINS:
            self.args_of(e)
            return None
        funcs = self.tr.module_funcs.get((sc.path, name))
        if funcs is None and name in self.tr.funcs_by_name and name in self.tr.imports.get(sc.path, {}):
            funcs = self.tr.funcs_by_name[name]
        if funcs:
            pos, kw, allv = self.args_of(e)
            return self.known_call(funcs, pos, kw)
        if name in self.tr.classes:
            pos, kw, allv = self.args_of(e)
            return self.construct(name, pos, kw, e)
        if name in FRESH_CTORS:
            pos, kw, allv = self.args_of(e)
            self.tr.wl("W6:" + name)
            x = ("L", self.sc.tmp())
            self.alloc(x, ("ANode", self.tr.cls_id(name), [(self.tr.attr_id("#%d" % i), self.elem(o)) for i, o in enumerate(allv)]))
            return x
        pos, kw, allv = self.args_of(e)
        return self.unknown_call(allv)

    def call_attr(self, e, f):
        m = f.attr
        if m in DENY_ATTRS:
            self.fail(e, "call of %s" % m)
        rv = f.value
        # super().m(...) / self.m(...)
        is_super = isinstance(rv, ast.Call) and isinstance(rv.func, ast.Name) and rv.func.id == "super"
        if is_super or self.is_self(rv):
            cls = self.sc.cls if is_super else self.self_class(rv)
            owner_self = None
            s = self.sc
            while s is not None and s.self_name is None:
                s = s.parent
            if s is not None:
                owner_self = self.name_ref(s.self_name, e)
            cands = self.component_methods(cls, m) if cls is not None else []
            if cands:
                pos, kw, allv = self.args_of(e)
                return self.known_call(cands, pos, kw, recv=owner_self if owner_self is not None else U)
            if is_super:
                pos, kw, allv = self.args_of(e)
                return self.unknown_call(allv)
            # self.<field>(...) : a stored callable, or a mutator on a field (self.x.append is handled below: rv differs)
        # module / namespace qualified: LoopIR.Read(...), T.Tensor(...), ic.Node(...), api.Procedure(...), dataclasses.replace
        if isinstance(rv, ast.Name) and self.tr.owner_of(self.sc, self.rename(rv.id)) is None:
            if rv.id in ADT_NAMESPACES and m[:1].isupper():
                pos, kw, allv = self.args_of(e)
                self.tr.wl("W6:ADT-constructor")
                x = ("L", self.sc.tmp())
                fs = [(self.tr.attr_id("#%d" % i), self.elem(o)) for i, o in enumerate(pos)] + \
                     [(self.tr.attr_id(k), self.elem(o)) for k, o in kw.items()]
                self.alloc(x, ("ANode", self.tr.cls_id(rv.id + "." + m), fs))
                return x
            if rv.id == "dataclasses" and m == "replace":
                pos, kw, allv = self.args_of(e)
                self.tr.wl("W8:dataclasses.replace")
                x = ("L", self.sc.tmp())
                if pos and pos[0] is not None:
                    self.alloc(x, ("AUpdate", self.var(pos[0]), [(self.tr.attr_id(k), self.elem(o)) for k, o in kw.items()]))
                else:
                    self.alloc(x, ("ALit", [self.elem(o) for o in allv]))
                return x
            if rv.id in self.tr.imports.get(self.sc.path, {}) or rv.id in self.tr.classes:
                if m in self.tr.classes and rv.id not in self.tr.classes:
                    pos, kw, allv = self.args_of(e)
                    return self.construct(m, pos, kw, e)
                if rv.id in self.tr.classes:  # ClassName.method(...)
                    cands = []
                    for ci in self.tr.classes[rv.id]:
                        cands += self.find_method(ci, m)
                    if cands:
                        pos, kw, allv = self.args_of(e)
                        return self.known_call(cands, pos, kw)
                if m in self.tr.funcs_by_name and rv.id not in self.tr.classes:
                    pos, kw, allv = self.args_of(e)
                    return self.known_call(self.tr.funcs_by_name[m], pos, kw)
        # ---- a method call on a value
        recv = self.expr(rv)
        if m in MUTATORS and not (recv is None):
            pos, kw, allv = self.args_of(e)
            target = self.var(recv)
            res = None
            if m in RETURNS_ELEMENT:
                res = ("L", self.sc.tmp())
                self.emit(("SIf", ("SRead", res, ("RItem",), target), ("SOpq", res)))
            arg = allv[-1] if allv else None
            if m in ("insert", "setdefault") and len(allv) > 1:
                arg = allv[1]
            self.mut(e, MUTATORS[m], target, self.elem(arg), "%s.%s(...)" % (src_of(rv), m))
            return res
        if m == "update":
            pos, kw, allv = self.args_of(e)
            if recv is None:
                return None
            if e.args:
                self.mut(e, "MExtend", self.var(recv), self.elem(allv[0] if allv else None), "%s.update(<positional>)" % src_of(rv))
                return None
            self.tr.wl("W7:node.update")
            x = ("L", self.sc.tmp())
            self.alloc(x, ("AUpdate", self.var(recv), [(self.tr.attr_id(k), self.elem(o)) for k, o in kw.items()]))
            return x
        if m == "copy" and not e.args and not e.keywords:
            if recv is None:
                return None
            self.tr.wl("W3:.copy()")
            x = ("L", self.sc.tmp())
            self.alloc(x, ("ACopy", self.var(recv)))
            return x
        if m in ALIAS_METHODS:
            self.args_of(e)
            self.tr.wl("alias:." + m + "()")
            return recv
        pos, kw, allv = self.args_of(e)
        if recv is None:
            return None if not any(o is not None for o in allv) else self.unknown_call(allv)
        # a method of a translated class called on a value whose class is not known: every method of that name
        cands = self.tr.methods_by_name.get(m, [])
        if cands:
            res = self.known_call(cands, pos, kw, recv=recv)
            self.emit(("SIf", ("SSkip",), ("SCallUnk", res, [self.var(o) for o in [recv] + allv if o is not None])))
            return res
        return self.unknown_call([recv] + allv)


# ---------------------------------------------------------------------------------------------- term helpers
def seq(stmts):
    stmts = [s for s in stmts if s != ("SSkip",)]
    if not stmts:
        return ("SSkip",)
    out = stmts[-1]
    for s in reversed(stmts[:-1]):
        out = ("SSeq", s, out)
    return out


def choice(alts):
    out = alts[-1]
    for a in reversed(alts[:-1]):
        out = ("SIf", a, out)
    return out


def src_of(e):
    try:
        return ast.unparse(e)[:40]
    except Exception:
        return "?"


def coq_var(v):
    return "(%s %d)" % ("Loc" if v[0] == "L" else "Glob", v[1])


def coq_elem(e):
    return "EO" if e == ("EO",) else "(EV %s)" % coq_var(e[1])


def coq_list(xs):
    return "[" + "; ".join(xs) + "]"


def coq_fields(fs):
    return coq_list(["(%d, %s)" % (a, coq_elem(e)) for a, e in fs])


def coq_akind(k):
    t = k[0]
    if t in ("ACopy", "ASlice"):
        return "(%s %s)" % (t, coq_var(k[1]))
    if t == "AConcat":
        return "(AConcat %s %s)" % (coq_var(k[1]), coq_var(k[2]))
    if t == "ALit":
        return "(ALit %s)" % coq_list([coq_elem(x) for x in k[1]])
    if t == "ANode":
        return "(ANode %d %s)" % (k[1], coq_fields(k[2]))
    if t == "AUpdate":
        return "(AUpdate %s %s)" % (coq_var(k[1]), coq_fields(k[2]))
    raise ValueError(k)


def coq_stmt(s, ind=1):
    t = s[0]
    pad = "\n" + "  " * ind
    if t in ("SSkip", "SRaise", "SBreak"):
        return t
    if t == "SAssign":
        return "(SAssign %s %s)" % (coq_var(s[1]), coq_var(s[2]))
    if t == "SOpq":
        return "(SOpq %s)" % coq_var(s[1])
    if t == "SRead":
        k = "RItem" if s[2] == ("RItem",) else "(RAttr %d)" % s[2][1]
        return "(SRead %s %s %s)" % (coq_var(s[1]), k, coq_var(s[3]))
    if t == "SAlloc":
        return "(SAlloc %s %s)" % (coq_var(s[1]), coq_akind(s[2]))
    if t == "SMut":
        k = s[2] if isinstance(s[2], str) else "(MSetAttr %d)" % s[2][1]
        return "(SMut %d %s %s %s)" % (s[1], k, coq_var(s[3]), coq_elem(s[4]))
    if t == "SCall":
        return "(SCall %s %d %s)" % (coq_var(s[1]), s[2], coq_list([coq_var(v) for v in s[3]]))
    if t == "SCallUnk":
        return "(SCallUnk %s %s)" % (coq_var(s[1]), coq_list([coq_var(v) for v in s[2]]))
    if t == "SReturn":
        return "(SReturn %s)" % coq_elem(s[1])
    if t == "SSeq":
        items = []
        while s[0] == "SSeq":
            items.append(s[1])
            s = s[2]
        items.append(s)
        out = ""
        for x in items[:-1]:
            out += "(SSeq " + coq_stmt(x, ind + 1) + pad
        return out + coq_stmt(items[-1], ind + 1) + ")" * (len(items) - 1)
    if t in ("SIf", "STry"):
        return "(%s %s%s%s)" % (t, coq_stmt(s[1], ind + 1), pad, coq_stmt(s[2], ind + 1))
    if t == "SLoop":
        return "(SLoop %s)" % coq_stmt(s[1], ind + 1)
    raise ValueError(s)


def ident(s):
    out = "".join(c if c.isalnum() else "_" for c in s)
    return out.strip("_")


def main():
    ap = argparse.ArgumentParser()
    ap.add_argument("--repo", default=os.environ.get("EXO_REPO", "/repo"))
    ap.add_argument("-o", "--out", required=True)
    ap.add_argument("--files", nargs="*", default=None)
    ap.add_argument("--prefix", default="")
    ap.add_argument("--report", default=None)
    ap.add_argument("--examples", default=None)
    a = ap.parse_args()
    files = a.files if a.files else DEFAULT_FILES
    tr = Translator(a.repo, files)
    try:
        tr.load()
        tr.translate_all()
    except Fail as e:
        sys.stderr.write("py2listprog: FAIL (construct outside the supported grammar): %s\n" % e)
        sys.exit(2)
    P = a.prefix
    L = []
    L.append("(* GENERATED by translator/py2listprog.py from %s -- do not edit *)" % ", ".join(files))
    L.append("From Coq Require Import List NArith.\nImport ListNotations.\nFrom Purity Require Import Model.\nLocal Open Scope N_scope.\n")
    L.append("Definition %ssseq (l : list stmt) : stmt := fold_right (fun a b => match b with SSkip => a | _ => SSeq a b end) SSkip l.\n" % P
             if False else "")
    names = {}
    helpers = []
    for sc in tr.scopes:
        base = ident(sc.path.replace(".py", "") + "_" + sc.qual)
        nm = base
        k = 1
        while nm in names:
            k += 1
            nm = "%s_%d" % (base, k)
        names[nm] = sc.id
        sc.coq_name = nm
        loc = ", ".join("%s=%d" % (n, i) for n, i in sc.locals.items() if not n.startswith("$"))
        L.append("(* %s:%d %s   locals: %s *)" % (sc.path, sc.lineno, sc.qual, loc))
        L.append("Definition %sd_%d : fdef := mkFdef %s\n  %s.\n" % (P, sc.id, coq_list([str(x) for x in tr.nparams[sc.id]]),
                                                                  coq_stmt(tr.bodies[sc.id])))
    L.append("Definition %sall_defs : list fdef :=\n  %s.\n" % (P, coq_list(["%sd_%d" % (P, sc.id) for sc in tr.scopes])))
    L.append("(* globals that may hold a reference to a shared object (any value is sound: the check re-validates it) *)")
    L.append("Definition %sall_gsh : list N := Eval vm_compute in infer_gsh 8%%nat %sall_defs.\n" % (P, P))
    L.append("(* the violations found in each function, tabulated once *)")
    L.append("Definition %sall_vl : list (list viol) := Eval vm_compute in viol_table %sall_defs %sall_gsh." % (P, P, P))
    L.append("Lemma %sall_vl_eq : %sall_vl = viol_table %sall_defs %sall_gsh.\nProof. vm_compute. reflexivity. Qed.\n" % (P, P, P, P))
    L.append("(* diagnostics: (function id, violations) of every flagged function *)")
    L.append("Definition %sall_flagged : list (N * list viol) := Eval vm_compute in\n"
             "  filter (fun p => negb (nullb (snd p))) (combine (map N.of_nat (seq 0 (length %sall_vl))) %sall_vl).\n" % (P, P, P))
    specs = []
    for sc in tr.scopes:
        spec = "(%s, %d)" % (coq_list([str(x) for x in tr.scope_of(sc.id)]), sc.id)
        L.append("Definition %ss_%s : list N * N := %s." % (P, sc.coq_name, spec))
        L.append("Definition %sh_%s : prog := helper %sall_defs %sall_gsh %ss_%s." % (P, sc.coq_name, P, P, P, sc.coq_name))
        specs.append("%ss_%s" % (P, sc.coq_name))
    L.append("\nDefinition %sall_specs : list (list N * N) :=\n  %s.\n" % (P, coq_list(specs)))
    L.append("Definition %sall_helpers : list prog := map (helper %sall_defs %sall_gsh) %sall_specs.\n" % (P, P, P, P))
    text = "\n".join(L)
    with open(a.out, "w") as f:
        f.write(text)
    if a.examples:
        modname = os.path.basename(a.out).split(".")[0]
        E = ["(* GENERATED by translator/py2listprog.py -- one reflective purity proof per translated helper *)",
             "From Coq Require Import List NArith.\nImport ListNotations.",
             "From Purity Require Import Model Proofs_ListProg %s.\n" % modname]
        for sc in tr.scopes:
            E.append("(* %s:%d %s *)" % (sc.path, sc.lineno, sc.qual))
            E.append("Example %sC07_%s : may_mutate_shared %sh_%s = false.\nProof. apply (cached_pure %sall_vl); "
                     "[exact %sall_vl_eq | vm_compute; reflexivity]. Qed." % (P, sc.coq_name, P, sc.coq_name, P, P))
        E.append("\nLemma %sall_helpers_pure : forallb (fun p => negb (may_mutate_shared p)) %sall_helpers = true.\n"
                 "Proof. apply (cached_all_pure %sall_defs %sall_gsh %sall_vl); [exact %sall_vl_eq | vm_compute; reflexivity]. Qed."
                 % (P, P, P, P, P, P))
        E.append("\nDefinition %sn_helpers : nat := %d." % (P, len(tr.scopes)))
        with open(a.examples, "w") as f:
            f.write("\n".join(E) + "\n")
    if a.report:
        globs = {v: list(k) for k, v in tr.glob_ids.items()}
        rep = {
            "files": files,
            "functions": [{"id": sc.id, "name": sc.coq_name, "qual": sc.qual, "file": sc.path, "line": sc.lineno,
                           "locals": sc.locals, "scope_size": len(tr.scope_of(sc.id)), "lambda": sc.is_lambda} for sc in tr.scopes],
            "globals": globs,
            "mutation_sites": tr.mut_sites,
            "site_whitelist_hits": tr.site_hits,
            "site_whitelist_unused": [list(k) for k in SITE_WHITELIST if not any((h["file"], h["func"], h["text"]) == k for h in tr.site_hits)],
            "dd_fields": [list(k) for k in tr.dd_fields],
            "stats": tr.stats,
            "whitelist": {"FRESH_CTORS": FRESH_CTORS, "FRESH_COPY_BUILTINS": sorted(FRESH_COPY_BUILTINS),
                          "ALIAS": sorted(ALIAS_METHODS | ALIAS_ATTRS) + ["ChainMap(x)"], "hits": tr.stats["whitelist_hits"]},
        }
        with open(a.report, "w") as f:
            json.dump(rep, f, indent=1, default=str)
    sys.stderr.write("py2listprog: %d functions, %d mutation sites, %d allocation sites, %d known / %d unknown calls\n" % (
        len(tr.scopes), tr.stats["mutation_sites"], tr.stats["alloc_sites"], tr.stats["known_calls"], tr.stats["unknown_calls"]))


if __name__ == "__main__":
    main()
