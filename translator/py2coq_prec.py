#!/venv/bin/python
"""Fail-closed Python-ast -> Gallina translator for the four decision rules at the heart of C15:

  R1  prec_analysis.py  PrecisionAnalysis.map_e, BinOp branch: the if/elif chain on lhs.type / rhs.type
      (err propagation, R + R, R adapts to the other side, two different precisions = error)      -> gen_binop
  R2  prec_analysis.py  PrecisionAnalysis.map_s, Call branch: ct / st / default splice / `st != ct`   -> gen_callcheck
  R3  win_analysis.py   WindowAnalysis.map_s.promote_arg: promote | reject | keep                      -> gen_promote
  R4  mem_analysis.py   MemoryAnalysis.mem_s, Call branch: `if not issubclass(cmem, smem): raise`      -> gen_memcheck

The output (Gen_Rules.v) is compiled into the Annot engine; ProofsGen.v proves that the hand-written model (Model.v:
pexpr / pcall / wpromote / mcall) applies exactly these rules.  Anything outside the whitelisted grammar aborts with
exit status 1 naming the construct."""
from __future__ import annotations

import ast
import os
import sys
from pathlib import Path

REPO = Path(os.environ.get("EXO_REPO", "/repo"))


class Unsupported(Exception):
    pass


def bad(node, why):
    raise Unsupported("%s at line %s: %s" % (why, getattr(node, "lineno", "?"), ast.unparse(node)[:120] if isinstance(node, ast.AST) else node))


def find_class(tree, name):
    for n in tree.body:
        if isinstance(n, ast.ClassDef) and n.name == name:
            return n
    bad(tree, "class %s not found" % name)


def find_method(cls, name):
    for n in cls.body:
        if isinstance(n, ast.FunctionDef) and n.name == name:
            return n
    bad(cls, "method %s not found" % name)


def isinstance_branch(fn, typename):
    """the body of `if/elif isinstance(<x>, LoopIR.<typename>):` at the top level of fn (also inside an if-chain)"""
    def walk_chain(ifnode):
        t = ifnode.test
        if (isinstance(t, ast.Call) and isinstance(t.func, ast.Name) and t.func.id == "isinstance"
                and ast.unparse(t.args[1]) == "LoopIR." + typename):
            return ifnode.body
        if len(ifnode.orelse) == 1 and isinstance(ifnode.orelse[0], ast.If):
            return walk_chain(ifnode.orelse[0])
        return None
    for st in fn.body:
        if isinstance(st, ast.If):
            r = walk_chain(st)
            if r is not None:
                return r
    bad(fn, "no isinstance(_, LoopIR.%s) branch" % typename)


# ------------------------------------------------------------------ R1
PTY = {"T.err": "TErr", "T.R": "(TP PR)", "lhs.type": "l", "rhs.type": "r"}


def r1_cond(t):
    if isinstance(t, ast.BoolOp):
        op = " || " if isinstance(t.op, ast.Or) else " && "
        return "(" + op.join(r1_cond(v) for v in t.values) + ")"
    if isinstance(t, ast.Compare) and len(t.ops) == 1 and isinstance(t.ops[0], (ast.Eq, ast.NotEq)):
        a, b = ast.unparse(t.left), ast.unparse(t.comparators[0])
        if a in PTY and b in PTY:
            s = "pty_eqb %s %s" % (PTY[a], PTY[b])
            return s if isinstance(t.ops[0], ast.Eq) else "negb (%s)" % s
    bad(t, "R1: unsupported condition")


def r1_body(stmts):
    typ, cl, cr, er = None, "false", "false", "false"
    for s in stmts:
        src = ast.unparse(s)
        if isinstance(s, ast.Assign) and len(s.targets) == 1 and isinstance(s.targets[0], ast.Name):
            tgt = s.targets[0].id
            if tgt == "typ":
                v = ast.unparse(s.value)
                if v not in PTY:
                    bad(s, "R1: typ assigned from")
                typ = PTY[v]
            elif tgt in ("lhs", "rhs") and src == "%s = self.coerce_e(%s, typ)" % (tgt, tgt):
                if tgt == "lhs":
                    cl = "true"
                else:
                    cr = "true"
            else:
                bad(s, "R1: unsupported assignment")
        elif isinstance(s, ast.Expr) and isinstance(s.value, ast.Call) and ast.unparse(s.value.func) == "self.err":
            er = "true"
        else:
            bad(s, "R1: unsupported statement")
    if typ is None:
        bad(stmts[0], "R1: branch does not set typ")
    return "{| b_typ := %s; b_cl := %s; b_cr := %s; b_err := %s |}" % (typ, cl, cr, er)


def r1(tree):
    fn = find_method(find_class(tree, "PrecisionAnalysis"), "map_e")
    body = isinstance_branch(fn, "BinOp")
    # expected prefix: lhs = self.apply_e(e.lhs); rhs = self.apply_e(e.rhs); if not e.type.is_numeric(): return ...; assert ...
    pre = [ast.unparse(s) for s in body[:2]]
    if pre != ["lhs = self.apply_e(e.lhs)", "rhs = self.apply_e(e.rhs)"]:
        bad(body[0], "R1: operands are not analysed first")
    chain = [s for s in body if isinstance(s, ast.If) and "typ" in ast.unparse(s.body[0] if s.body else s)]
    chain = [s for s in chain if not ast.unparse(s.test).startswith("not e.type.is_numeric")]
    if len(chain) != 1:
        bad(body[0], "R1: expected exactly one if-chain assigning typ")
    last = body[-1]
    if ast.unparse(last) != "return LoopIR.BinOp(e.op, lhs, rhs, typ, e.srcinfo)":
        bad(last, "R1: result construction")
    out, node, depth = [], chain[0], 0
    while True:
        out.append("if %s then %s else" % (r1_cond(node.test), r1_body(node.body)))
        if len(node.orelse) == 1 and isinstance(node.orelse[0], ast.If):
            node = node.orelse[0]
            continue
        if not node.orelse:
            bad(node, "R1: chain without else")
        out.append(r1_body(node.orelse))
        break
    return "Definition gen_binop (l r : pty) : binres :=\n  " + "\n  ".join(out) + "."


# ------------------------------------------------------------------ R2
def r2(tree):
    fn = find_method(find_class(tree, "PrecisionAnalysis"), "map_s")
    body = isinstance_branch(fn, "Call")
    loops = [s for s in body if isinstance(s, ast.For)]
    if len(loops) != 1 or ast.unparse(loops[0].iter) != "zip(args, s.f.args)" or ast.unparse(loops[0].target) != "(call_a, sig_a)":
        bad(body[0], "R2: expected `for call_a, sig_a in zip(args, s.f.args)`")
    lb = [ast.unparse(s) for s in loops[0].body[:3]]
    if lb != ["ct = call_a.type.basetype()", "st = sig_a.type.basetype()", "st = self.default if st == T.R else st"]:
        bad(loops[0], "R2: ct/st computation changed: %r" % lb)
    iff = loops[0].body[3] if len(loops[0].body) == 4 else bad(loops[0], "R2: loop body length")
    if not isinstance(iff, ast.If) or iff.orelse:
        bad(iff, "R2: expected a single if")
    if not (len(iff.body) == 1 and isinstance(iff.body[0], ast.Expr) and ast.unparse(iff.body[0].value.func) == "self.err"):
        bad(iff, "R2: the if does not record an error")
    t = iff.test
    if not (isinstance(t, ast.BoolOp) and isinstance(t.op, ast.And) and len(t.values) == 2):
        bad(t, "R2: condition shape")
    conj = []
    for v in t.values:
        u = ast.unparse(v)
        if u == "st.is_numeric()":
            conj.append("bty_numeric st'")
        elif u == "st != ct":
            conj.append("negb (bty_eqb st' ct)")
        elif u == "st == ct":
            conj.append("bty_eqb st' ct")
        else:
            bad(v, "R2: unsupported conjunct")
    return ("Definition gen_callcheck (dflt : prec) (st ct : bty) : bool :=\n"
            "  let st' := if bty_eqb st (BP PR) then BP dflt else st in\n  %s." % " && ".join(conj))


# ------------------------------------------------------------------ R3
def r3(tree):
    fn = find_method(find_class(tree, "WindowAnalysis"), "map_s")
    pa = [n for n in ast.walk(fn) if isinstance(n, ast.FunctionDef) and n.name == "promote_arg"]
    if len(pa) != 1 or [a.arg for a in pa[0].args.args] != ["a", "sa"]:
        bad(fn, "R3: promote_arg(a, sa) not found")
    body = pa[0].body
    if len(body) != 2 or not isinstance(body[0], ast.If) or ast.unparse(body[1]) != "return a":
        bad(pa[0], "R3: body shape")
    atoms = {"sa.type.is_win()": "sa_win", "a.type.is_win()": "a_win", "isinstance(sa.type, T.Tensor)": "sa_tensor"}

    def cond(t):
        if isinstance(t, ast.BoolOp):
            op = " && " if isinstance(t.op, ast.And) else " || "
            return "(" + op.join(cond(v) for v in t.values) + ")"
        if isinstance(t, ast.UnaryOp) and isinstance(t.op, ast.Not):
            return "negb (%s)" % cond(t.operand)
        u = ast.unparse(t)
        if u in atoms:
            return atoms[u]
        bad(t, "R3: unsupported condition")

    def act(stmts):
        if len(stmts) != 1:
            bad(stmts[0], "R3: branch length")
        u = ast.unparse(stmts[0])
        if u == "return promote_tensor(a, sa)":
            return "WPromote"
        if isinstance(stmts[0], ast.Raise) and u.startswith("raise TypeError("):
            return "WReject"
        if u == "return a":
            return "WKeep"
        bad(stmts[0], "R3: unsupported action")

    out, node = [], body[0]
    while True:
        out.append("if %s then %s else" % (cond(node.test), act(node.body)))
        if len(node.orelse) == 1 and isinstance(node.orelse[0], ast.If):
            node = node.orelse[0]
            continue
        out.append(act(node.orelse) if node.orelse else "WKeep")
        break
    return "Definition gen_promote (sa_win sa_tensor a_win : bool) : waction :=\n  " + "\n  ".join(out) + "."


# ------------------------------------------------------------------ R4
def r4(tree):
    fn = find_method(find_class(tree, "MemoryAnalysis"), "mem_s")
    body = None
    for n in ast.walk(fn):
        if isinstance(n, ast.If) and ast.unparse(n.test) == "styp is LoopIR.Call":
            body = n.body
    if body is None:
        bad(fn, "R4: `styp is LoopIR.Call` branch not found")
    loops = [s for s in body if isinstance(s, ast.For)]
    if len(loops) != 1 or ast.unparse(loops[0].iter) != "zip(s.args, s.f.args)" or ast.unparse(loops[0].target) != "(ca, sa)":
        bad(body[0], "R4: expected `for ca, sa in zip(s.args, s.f.args)`")
    g = loops[0].body
    if len(g) != 1 or not isinstance(g[0], ast.If) or ast.unparse(g[0].test) != "sa.type.is_numeric()" or g[0].orelse:
        bad(loops[0], "R4: expected the guard `if sa.type.is_numeric():`")
    inner = g[0].body
    binds = {}
    check = None
    for s in inner:
        u = ast.unparse(s)
        if u == "smem = sa.mem":
            binds["smem"] = "smem"
        elif u == "cmem = self.get_e_mem(ca)":
            binds["cmem"] = "cmem"
        elif isinstance(s, ast.Assert):
            continue
        elif isinstance(s, ast.If):
            check = s
        else:
            bad(s, "R4: unsupported statement")
    if check is None or check.orelse or not (len(check.body) == 1 and isinstance(check.body[0], ast.Raise)
                                             and ast.unparse(check.body[0]).startswith("raise TypeError(")):
        bad(loops[0], "R4: expected `if <cond>: raise TypeError(...)`")

    def cond(t):
        if isinstance(t, ast.UnaryOp) and isinstance(t.op, ast.Not):
            return "negb (%s)" % cond(t.operand)
        if isinstance(t, ast.Call) and isinstance(t.func, ast.Name) and t.func.id == "issubclass" and len(t.args) == 2:
            a, b = (ast.unparse(x) for x in t.args)
            if a in binds and b in binds:
                return "sub %s %s" % (a, b)
        bad(t, "R4: unsupported condition")

    return ("(* true = the call is rejected *)\n"
            "Definition gen_memcheck (sub : nat -> nat -> bool) (cmem smem : nat) : bool :=\n  %s." % cond(check.test))


PRELUDE = """(* GENERATED by translator/py2coq_prec.py from %s — do not edit. *)
From Coq Require Import Bool.
From Annot Require Import Model.

Inductive pty := TErr | TP (p : prec).                 (* type of an analysed numeric expression: T.err or a precision *)
Definition pty_eqb (a b : pty) : bool :=
  match a, b with TErr, TErr => true | TP p, TP q => prec_eqb p q | _, _ => false end.
Record binres := { b_typ : pty; b_cl : bool; b_cr : bool; b_err : bool }.   (* result type, coerce lhs / rhs, error *)

Inductive bty := BCtrl | BP (p : prec).                 (* basetype of an argument: control type or a precision *)
Definition bty_eqb (a b : bty) : bool :=
  match a, b with BCtrl, BCtrl => true | BP p, BP q => prec_eqb p q | _, _ => false end.
Definition bty_numeric (a : bty) : bool := match a with BP _ => true | BCtrl => false end.

Inductive waction := WPromote | WReject | WKeep.
"""


def main(out_path):
    srcs = {k: REPO / "src" / "exo" / "backend" / k for k in ("prec_analysis.py", "win_analysis.py", "mem_analysis.py")}
    trees = {k: ast.parse(p.read_text()) for k, p in srcs.items()}
    parts = [PRELUDE % ", ".join(str(p) for p in srcs.values())]
    for nm, f, k in (("R1", r1, "prec_analysis.py"), ("R2", r2, "prec_analysis.py"), ("R3", r3, "win_analysis.py"),
                     ("R4", r4, "mem_analysis.py")):
        parts.append("(* %s *)\n%s\n" % (nm, f(trees[k])))
    text = "\n".join(parts)
    outp = Path(out_path)
    if not outp.exists() or outp.read_text() != text:  # keep the timestamp when nothing changed (no needless rebuild)
        outp.write_text(text)


if __name__ == "__main__":
    try:
        main(sys.argv[1] if len(sys.argv) > 1 else "Gen_Rules.v")
    except Unsupported as e:
        print("py2coq_prec: unsupported construct: %s" % e, file=sys.stderr)
        sys.exit(1)
